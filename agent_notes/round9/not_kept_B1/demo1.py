#!/venv/bin/python
"""C02 demo: a reported match must be genuine -- 'after' is the text the
pattern matches at the position where 'before' ends.

Scenario (no private API used):
  * an fdspawn on a pipe, searchwindowsize=10;
  * 18 characters arrive and are left pending by an expect() that times out;
  * 3 more characters arrive; the application has a SIGALRM handler that
    raises (its own overall deadline) and the alarm goes off while expect()
    is in its delayafterread pause, i.e. right after those 3 characters were
    read from the pipe;
  * the application catches its exception and calls expect('ok') again.

Whatever happens to the 3 interrupted characters, the match reported by the
last call must be consistent: before + after has to be a contiguous piece of
what the child wrote, starting at its beginning.
"""
import os
import sys
import signal
import time

sys.path.insert(0, os.path.dirname(os.path.dirname(os.path.abspath(__file__))))
import pexpect
from pexpect import fdpexpect

print(pexpect.__file__)


class Deadline(Exception):
    pass


def on_alarm(signum, frame):
    raise Deadline()


def main():
    r, w = os.pipe()
    child = fdpexpect.fdspawn(r, searchwindowsize=10, timeout=5)

    first = b'AAAAAAAAAAokBBBBBB'      # 18 characters, 'ok' at offset 10
    second = b'XYZ'
    stream = first + second

    os.write(w, first)
    i = child.expect([b'never', pexpect.TIMEOUT], timeout=0.3)
    assert i == 1, i
    assert child.before == first, child.before

    # The second piece is already waiting in the pipe, so the next expect()
    # reads it at once and then pauses for delayafterread; the alarm fires
    # in the middle of that pause.
    os.write(w, second)
    child.delayafterread = 1.0
    signal.signal(signal.SIGALRM, on_alarm)
    signal.setitimer(signal.ITIMER_REAL, 0.4)
    t0 = time.time()
    try:
        child.expect([b'never'], timeout=5)
    except Deadline:
        pass
    else:
        print('FAIL (demo set-up: the alarm did not interrupt expect)')
        return 2
    finally:
        signal.setitimer(signal.ITIMER_REAL, 0)
    took = time.time() - t0
    assert 0.3 < took < 0.9, took
    child.delayafterread = 0.0001

    i = child.expect([b'ok', pexpect.TIMEOUT], timeout=0.5)
    print('index %r before %r after %r buffer %r' % (
        i, child.before, child.after, child.buffer))
    if i == 1:
        # 'ok' not inside the window any more: acceptable, nothing reported.
        print('PASS (no match reported)')
        return 0

    ok = True
    m = child.match
    if child.after != b'ok' or m.group(0) != b'ok':
        print('after/match is not the pattern text')
        ok = False
    if not stream.startswith(child.before + child.after):
        print("before + after is not a piece of the child's output: %r + %r"
              " vs %r" % (child.before, child.after, stream))
        ok = False
    if b'ok' in child.before:
        print("'before' already contains an occurrence of the pattern: the "
              "reported match is not the leftmost one")
        ok = False
    print('PASS' if ok else 'FAIL')
    return 0 if ok else 1


if __name__ == '__main__':
    sys.exit(main())
