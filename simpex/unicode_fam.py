"""C07 family: unicode mode decodes the stream as a whole, however reads split it."""
import codecs

from . import harness
from .engine import Violation, gen_costs, collect_info
from .harness import EOF, TIMEOUT
from .world import SimHang, HarnessError

ENCODINGS = ['utf-8', 'utf-8', 'utf-16', 'utf-16-le', 'utf-16-be', 'utf-32', 'latin-1', 'cp437',
             'shift_jis', 'euc_jp', 'gb18030', 'utf-8-sig', 'cp1252',
             # stateful 7-bit encodings: every byte is ASCII, the meaning depends on the shift state of the decoder
             'iso2022_jp', 'iso2022_kr', 'hz', 'utf-7',
             # the same codecs under other spellings (whatever is keyed on the NAME rather than on the codec)
             'utf8', 'UTF_8', 'latin1', 'U16']

POOLS = {
    'ascii': u'ab c\r\n',
    'two': u'\xe9\xfc\xdf\xf1',
    'three': u'€あ中☃',
    'four': u'\U0001f600\U00010348\U0001f40d',
    'cjk': u'あア中文Ａ',
    'kr': u'한국어',
}


class RecLog(object):
    """In-memory log file recording every write and flush in order."""

    def __init__(self):
        self.events = []

    def write(self, s):
        self.events.append(('w', s))

    def flush(self):
        self.events.append(('f',))

    def writes(self):
        return [e[1] for e in self.events if e[0] == 'w']


def encodable(text, enc):
    try:
        text.encode(enc)
        return True
    except UnicodeError:
        return False


def gen_text(rng, enc, n):
    pools = ['ascii']
    if enc in ('latin-1', 'cp1252', 'cp437', 'latin1'):
        pools += ['two']
    elif enc in ('shift_jis', 'euc_jp', 'iso2022_jp', 'hz'):
        pools += ['cjk']
    elif enc == 'iso2022_kr':
        pools += ['kr']
    else:
        pools += ['two', 'three', 'four', 'cjk']
    out = []
    while len(out) < n:
        c = rng.choice(POOLS[rng.choice(pools)])
        if encodable(c, enc):
            out.append(c)
    return u''.join(out)


def generate(rng):
    scn = {'family': 'unicode'}
    tr = rng.choice(['fd', 'pty', 'sock', 'popen'])
    scn['transport'] = tr
    scn['costs'] = gen_costs(rng)
    enc = rng.choice(ENCODINGS + [None])
    scn['enc'] = enc
    scn['errors'] = 'strict'
    n = rng.choice([1, 2, 3, 5, 8, 20, 60])
    if enc is None:
        data = bytes(rng.randrange(256) for _ in range(n))
    else:
        text = gen_text(rng, enc, n)
        data = text.encode(enc)
        if rng.random() < 0.3:
            scn['errors'] = rng.choice(['replace', 'ignore', 'replace', 'ignore', 'backslashreplace', 'surrogateescape'])
            # inject invalid bytes
            bl = bytearray(data)
            for _ in range(rng.randint(1, 3)):
                bl.insert(rng.randint(0, len(bl)), rng.choice([0xff, 0xfe, 0x80, 0xc3, 0xe2, 0xf0, 0x81]))
            data = bytes(bl)
    scn['data'] = harness.l1(data)
    k = rng.choice([0, 1, 1, 2, 3, 3])
    scn['cuts'] = sorted(set(rng.randint(1, max(1, len(data) - 1)) for _ in range(k))) if len(data) > 1 else []
    scn['how'] = rng.choice(['split_write', 'split_write', 'torn_read', 'maxread'])
    if tr == 'fd' and rng.random() < 0.25:
        scn['how'] = 'growing_file'
    scn['twin'] = rng.random() < 0.2
    scn['maxread'] = rng.choice([1, 2, 3, 2000]) if scn['how'] == 'maxread' else 2000
    if tr in ('fd', 'pty'):
        scn['use_poll'] = rng.random() < 0.3
    if tr == 'popen':
        scn['sched'] = [rng.randint(0, 3) for _ in range(rng.randint(1, 8))]
    scn['logs'] = rng.choice([[], ['logfile_read'], ['logfile'], ['logfile', 'logfile_read']])
    scn['drain'] = rng.choice(['read', 'expect_eof', 'expect_each'])
    if tr in ('fd', 'pty') and rng.random() < 0.35 and scn['how'] != 'growing_file':
        scn['async'] = True          # the asyncio path: awaited expect under the virtual-time loop
        scn['drain'] = rng.choice(['expect_eof', 'expect_each'])
    if scn.get('use_poll') and scn.get('transport') in ('pty', 'fd') and rng.random() < 0.3:
        scn['many_fds'] = True      # > 1024 descriptors open: select() would raise, every wait must go through poll
    return scn


def enumerate_scenarios(tier, seed):
    """Every single cut offset for short texts x encodings x transports."""
    out = []
    samples = [u'a\xe9b', u'€', u'x\U0001f600y', u'あ中', u'\xe9€\U0001f40d', u'ab あ cd', u'x中y']
    trs = ['fd', 'pty', 'sock', 'popen']
    for enc in ['utf-8', 'utf-16', 'utf-16-le', 'utf-32', 'shift_jis', 'gb18030', 'euc_jp', 'utf-8-sig', 'latin-1',
                'iso2022_jp', 'hz', 'utf-7']:
        for text in samples:
            if not encodable(text, enc):
                continue
            data = text.encode(enc)
            for cutp in range(1, len(data)):
                for tr in (trs if tier == 'thorough' else [trs[(cutp + len(data)) % 4]]):
                    for how in ('split_write', 'torn_read'):
                        scn = {'family': 'unicode', 'transport': tr, 'costs': [3], 'enc': enc, 'errors': 'strict',
                               'data': harness.l1(data), 'cuts': [cutp], 'how': how, 'maxread': 2000,
                               'logs': ['logfile_read'], 'drain': 'expect_eof', 'enum': [enc, cutp]}
                        if tr == 'popen':
                            scn['sched'] = [0, 1, 1, 0, 2]
                        out.append(scn)
                        if tr in ('fd', 'pty') and how == 'split_write':
                            s2 = dict(scn)
                            s2['async'] = True
                            out.append(s2)
    return out


def pieces_of(data, cuts):
    out = []
    last = 0
    for c in sorted(set(int(x) for x in cuts)):
        if 0 < c < len(data) and c > last:
            out.append(data[last:c])
            last = c
    out.append(data[last:])
    return out


def run(scn):
    data = harness.b(scn['data'])
    enc = scn.get('enc')
    errors = scn.get('errors', 'strict')
    cuts = scn.get('cuts', [])
    how = scn.get('how', 'split_write')
    pcs = pieces_of(data, cuts)
    sc = dict(scn)
    tr = scn['transport']
    end = {'op': 'exit', 'code': 0, 'dt': 300} if tr in ('pty', 'popen') else {'op': 'close', 'dt': 300}
    if how == 'split_write':
        sc['peer'] = [{'op': 'w', 'd': harness.l1(p), 'dt': 400} for p in pcs] + [end]
    elif how == 'torn_read':
        sc['peer'] = [{'op': 'w', 'd': harness.l1(data), 'dt': 5}, end]
        sc['tear'] = [len(p) for p in pcs[:-1]] + [0]
    elif how == 'growing_file':
        # fdspawn reading through a regular file that is still being written: between two appends the reader reaches the
        # current end (an empty read, reported as EOF) and carries on later; the cut may fall inside a character
        if tr != 'fd' or scn.get('async'):
            raise HarnessError('growing_file is an fd scenario')
        sc['fd_kind'] = 'regfile'
        sc['peer'] = [{'op': 'w', 'd': harness.l1(p), 'dt': 400000} for p in pcs]
    else:
        sc['peer'] = [{'op': 'w', 'd': harness.l1(data), 'dt': 5}, end]
    sc['timeout'] = 5
    # reference
    if enc is None:
        want = data
    else:
        try:
            want = codecs.decode(data, enc, errors)
            inc = codecs.getincrementaldecoder(enc)(errors)
            fed = u''.join(inc.decode(p, final=False) for p in pcs)
            whole = codecs.getincrementaldecoder(enc)(errors).decode(data, final=False)
        except UnicodeError:
            if errors == 'strict' and not scn.get('seed'):
                raise HarnessError('stream not decodable under strict')
            return [], {'digest': None, 'counters': {'codec_rejects_skipped': 1}}
        if not (fed == whole == want):
            # the codec itself is chunk- or final-dependent for this input:
            # not pexpect's doing, nothing to judge
            return [], {'digest': None, 'counters': {'codec_dependent_skipped': 1}}

    def body(r):
        logs = {}
        child = r.make_child()
        for name in scn.get('logs', []):
            logs[name] = RecLog()
            setattr(child, name, logs[name])
        out = []
        st = child.string_type
        if scn.get('twin') and enc is not None:
            # a second object with the same encoding and error policy is alive next to the one under test and has just read a
            # chunk that ends inside a multi-byte character: decoder state belongs to ONE stream
            try:
                head = u'\xe9\u20ac'.encode(enc)[:-1]
            except UnicodeError:
                head = b''
            if head:
                from . import transports as T_
                tr_, tw_ = r.k.pipe(4096)
                tw_.write_now(head)
                twin = T_.SimFdSpawn(r.k.alloc_fd(tr_), timeout=0.001, encoding=enc, codec_errors=errors)
                try:
                    twin.expect([TIMEOUT], timeout=0)
                except Exception as e:
                    if isinstance(e, (HarnessError, SimHang)):
                        raise
                r.twin = twin
                r.w.probe('second_object_holds_a_partial_character')
        got = st()
        drain = scn.get('drain', 'read')
        loop = None
        if scn.get('async'):
            from . import aioloop
            import asyncio
            aioloop.install()
            loop = aioloop.SimLoop()
            loop.set_exception_handler(lambda lp, ctx: None)
            harness.tap_reads(child, child.chunks.append)
            child._rec_via_log = True

            async def adrain():
                acc = st()
                if drain == 'expect_each':
                    for _ in range(3):
                        try:
                            await child.expect(r.conv('.') if enc is None else u'.', async_=True)
                            acc += child.before + child.after
                        except EOF:
                            return acc + child.before
                await child.expect(EOF, async_=True)
                return acc + child.before
        try:
            if loop is not None:
                try:
                    got = loop.run_until_complete(adrain())
                finally:
                    loop.detach_all()
                    try:
                        loop.close()
                    except Exception:
                        pass
            elif how == 'growing_file':
                acc = st()
                for _ in range(len(pcs) + 1):
                    # read up to the current end of the file, then come back after the next append
                    try:
                        child.expect(EOF, timeout=1)
                    except TIMEOUT:
                        pass
                    acc += child.before
                    r.w.sleep(400000)
                got = acc
                r.w.probe('read_through_a_growing_file')
            elif drain == 'read':
                got = child.read()
            elif drain == 'expect_eof':
                child.expect(EOF)
                got = child.before
            else:
                # consume character by character, then the rest
                acc = st()
                for _ in range(3):
                    try:
                        child.expect(r.conv('.') if enc is None else u'.')
                        acc += child.before + child.after
                    except EOF:
                        acc += child.before
                        break
                else:
                    child.expect(EOF)
                    acc += child.before
                got = acc
        except (EOF, TIMEOUT) as e:
            out.append(Violation('C07.unexpected', 'drain ended with %s' % type(e).__name__, None, {}))
        except SimHang as e:
            out.append(Violation('C07.hang', str(e), None, {}))
        except HarnessError:
            raise
        except Exception as e:
            out.append(Violation('C07.exception', 'raised %s: %s' % (type(e).__name__, e), harness._tb_site(e),
                                 {'enc': enc, 'errors': errors, 'cuts': cuts, 'how': how}))
        det = {'enc': enc, 'errors': errors, 'cuts': cuts, 'how': how, 'transport': tr, 'drain': drain}
        if not out:
            if type(got) is not (bytes if enc is None else str):
                out.append(Violation('C07.type', 'caller got %s' % type(got).__name__, None, det))
            elif got != want:
                out.append(Violation('C07.text', 'text handed to the caller differs from decode(whole stream)', None,
                                     dict(det, got=got, want=want)))
            seen = child.chunks
            if any(type(c) is not type(want) for c in seen):
                out.append(Violation('C07.type', 'matching engine was fed %s' % set(type(c).__name__ for c in seen), None, det))
            elif type(want)().join(seen) != want:
                out.append(Violation('C07.text', 'text delivered to matching differs from decode(whole stream)', None,
                                     dict(det, got=type(want)().join(seen), want=want)))
            for name, lg in logs.items():
                ws = lg.writes()
                if any(type(x) is not type(want) for x in ws):
                    out.append(Violation('C07.log_type', '%s received %s' % (name, set(type(x).__name__ for x in ws)), None, det))
                elif type(want)().join(ws) != want:
                    out.append(Violation('C07.log_text', '%s content differs from decode(whole stream)' % name, None,
                                         dict(det, got=type(want)().join(ws), want=want)))
        info = collect_info(r)
        nb = [len(c) for c in child.chunks]
        inside = False
        if enc is not None:
            # did a read boundary fall inside a character?
            pos = 0
            bounds = set()
            for ch in want:
                pos += len(ch.encode(enc)) if errors == 'strict' else 0
                bounds.add(pos)
            tot = 0
            for e in r.w.trace:
                if e[3] in ('read', 'recv') and isinstance(e[5], tuple):
                    tot += e[5][0]
                    cname = codecs.lookup(enc).name
                    if errors == 'strict' and tot not in bounds and tot < len(data) and not cname.startswith('utf-16') \
                            and cname not in ('utf-32', 'utf-8-sig'):
                        inside = True
            if inside:
                r.w.probe('cut_inside_character')
        info['probes'] = dict(r.w.probes)
        info['counters'] = {'enc:%s' % enc: 1, 'how:%s' % how: 1, 'tr:%s' % tr: 1}
        info['inside'] = inside
        return out, info
    return harness.run_with(sc, body)
