"""C09 (exit-status truth) and C10 (lifecycle safety) family.

Operation sequences over the lifecycle API against children with different
dispositions; after EVERY operation the object's claims are compared with the
simulated kernel's process and descriptor tables.  After every close of a
descriptor the harness opens a decoy that receives the same number; any later
intercepted call naming it is a violation.
"""
import gc
import itertools
import os
import signal

import pexpect

from . import harness
from . import peers
from . import shim
from . import transports as T
from .engine import Violation, gen_costs, collect_info
from .harness import EOF, TIMEOUT
from .kernel import OpenFile, OPOST
from .world import SimHang, HarnessError, SimInterrupt

TERM_SIGNALS = [1, 2, 3, 4, 5, 6, 7, 8, 9, 10, 11, 12, 13, 14, 15, 24, 25, 26, 27, 31]

PTY_OPS = ['isalive', 'wait', 'kill', 'terminate', 'terminate_force', 'close', 'close_noforce', 'sendeof',
           'expect_eof', 'send', 'rnb', 'with_exc', 'del', 'sendline', 'read_all', 'aexpect_eof']
FD_OPS = ['isalive', 'close', 'send', 'expect_eof', 'rnb', 'with_exc', 'del']
# rarely combined with the main path, but they all go to the descriptor (terminal attributes, window size, control keys)
PTY_AUX = ['isatty', 'getecho', 'setecho', 'getwinsize', 'setwinsize', 'sendcontrol', 'sendintr', 'waitnoecho', 'readline',
           'fileno', 'flush', 'eof']
FD_AUX = ['isatty', 'sendline', 'readline', 'fileno', 'flush']


def _strip_tb(e):
    """A stored exception keeps its traceback, the traceback keeps the frames, the frames keep the object under test alive:
    the harness must not be the reason an object outlives its last reference."""
    todo, seen = [e], set()
    while todo and len(seen) < 50:
        x = todo.pop()
        if x is None or id(x) in seen:
            continue
        seen.add(id(x))
        x.__traceback__ = None
        # both links: an ExitStack, a context manager or a 'raise ... from' can leave them pointing at different exceptions
        todo.append(x.__context__)
        todo.append(x.__cause__)
    return e


class ClosableLog(object):
    """A log file object the application may close before it closes the spawn object (`with open(...) as log:`)."""

    def __init__(self):
        self.closed = False
        self.n = 0

    def write(self, s):
        if self.closed:
            raise ValueError('I/O operation on closed file.')
        self.n += 1

    def flush(self):
        if self.closed:
            raise ValueError('I/O operation on closed file.')


class Decoy(OpenFile):
    kind = 'decoy'

    def __init__(self):
        self.written = bytearray()

    def readable(self):
        return False

    def write_now(self, data):
        self.written += data
        return len(data)


def gen_ops(rng, tr, n):
    ops = []
    al = PTY_OPS if tr == 'pty' else FD_OPS
    aux = PTY_AUX if tr == 'pty' else FD_AUX
    for _ in range(n):
        o = rng.choice(al)
        if tr != 'popen' and rng.random() < 0.15:
            o = rng.choice(aux)
        op = {'op': o}
        if o == 'kill':
            op['sig'] = rng.choice([1, 2, 15, 9, 18, 19, 0, 10])
        ops.append(op)
    return ops


def generate(rng):
    scn = _generate(rng)
    if scn.get('transport') in ('pty', 'fd') and rng.random() < 0.08 and not any(o['op'] == 'aexpect_eof' for o in scn['ops']):
        # asyncio.run(child.expect(..., async_=True)) once, then ordinary use: the loop is gone when the object is closed
        scn['ops'].insert(rng.randint(0, len(scn['ops'])), {'op': 'aexpect_to'})
    if scn.get('transport') != 'popen' and rng.random() < 0.08:
        scn['intr'] = sorted([rng.randint(1, 8), rng.choice([1, 50, 5000, 60000])] for _ in range(rng.randint(1, 2)))
    return scn


def _generate(rng):
    scn = {'family': 'lifecycle'}
    tr = rng.choice(['pty'] * 6 + ['fd', 'sock', 'sock', 'popen'])
    scn['transport'] = tr
    scn['costs'] = gen_costs(rng)
    if tr == 'popen':
        scn['disp'] = rng.choice(['exited', 'mid_exit', 'normal'])
        scn['fate'] = {'code': rng.randrange(256)} if rng.random() < 0.6 else {'sig': rng.choice(TERM_SIGNALS)}
        scn['exit_gap_us'] = rng.choice([0, 0, 2000])
        scn['output'] = rng.choice(['', 'hello\n'])
        scn['sched'] = [rng.randint(0, 3) for _ in range(rng.randint(1, 6))]
        scn['delayafterread'] = 0.001
        nops = rng.choice([1, 2, 3, 4])
        ops = []
        for _ in range(nops):
            o = rng.choice(['wait', 'wait', 'kill', 'expect_eof', 'read_all'])
            op = {'op': o}
            if o == 'kill':
                op['sig'] = rng.choice([15, 9, 2, 1])
            ops.append(op)
        if scn['disp'] == 'normal' and not any(o['op'] == 'kill' for o in ops):
            ops.insert(0, {'op': 'kill', 'sig': 15})
        scn['ops'] = ops
        if scn['disp'] == 'mid_exit':
            scn['exit_at'] = [rng.randrange(len(ops)), rng.randint(1, 6)]
        scn['timeout'] = 0.2
        return scn
    if tr == 'pty':
        scn['disp'] = rng.choice(['normal', 'normal', 'ignore', 'stopped', 'exited', 'mid_exit', 'mid_exit', 'ignore_stopped'])
        r = rng.random()
        if r < 0.6:
            scn['fate'] = {'code': rng.randrange(256)}
        else:
            scn['fate'] = {'sig': rng.choice(TERM_SIGNALS)}
        scn['sig_latency_us'] = rng.choice([0, 0, 10, 3000, 20000])
        scn['exit_gap_us'] = rng.choice([0, 0, 5, 2000, 20000])
        scn['eof_flavour'] = rng.choice(['eio', 'eio', 'empty'])
        scn['use_poll'] = rng.random() < 0.3
        scn['output'] = rng.choice(['', '', 'hello\r\n', 'x' * 3000])
        scn['encoding'] = rng.choice([None, None, 'utf-8'])
        scn['hup_write'] = rng.choice(['ok', 'ok', 'eio'])
    elif tr == 'sock':
        scn['reset'] = rng.random() < 0.4
        scn['peer_closes'] = rng.random() < 0.4
    else:
        scn['peer_closes'] = rng.random() < 0.5
        scn['use_poll'] = rng.random() < 0.4
        # a daemon-like process (standard input closed): the descriptor handed to fdspawn has the number 0
        scn['fd_zero'] = rng.random() < 0.25
    nops = rng.choice([1, 2, 3, 4, 5, 6, 8])
    if os.environ.get('SIMPEX_TIER') == 'thorough' and rng.random() < 0.4:
        nops = rng.randint(6, 16)
    ops = gen_ops(rng, tr, nops)
    if tr != 'popen' and rng.random() < 0.2:
        scn['log'] = rng.choice(['logfile', 'logfile', 'logfile_read', 'logfile_send'])
        if rng.random() < 0.7:
            ops.insert(rng.randint(0, len(ops)), {'op': 'closelog'})
    scn['ops'] = ops
    if tr == 'pty' and scn['disp'] == 'mid_exit':
        scn['exit_at'] = [rng.randrange(nops), rng.randint(1, 8)]
    scn['timeout'] = 0.2
    if scn.get('use_poll') and scn.get('transport') in ('pty', 'fd') and rng.random() < 0.3:
        scn['many_fds'] = True      # > 1024 descriptors open: select() would raise, every wait must go through poll
    return scn


def enumerate_scenarios(tier, seed):
    """(a) every exit code and terminating signal x observation sequences;
       (b) every operation sequence of length <= 2 (3 in the thorough tier) per disposition."""
    import random
    rng = random.Random('lifecycle-enum:%d' % seed)
    out = []
    obs = ['isalive', 'wait', 'close', 'terminate', 'expect_eof', 'read_all', 'aexpect_eof']
    seqs = [list(p) for n in (1, 2, 3) for p in itertools.product(obs, repeat=n)]
    fates = [{'code': c} for c in range(256)] + [{'sig': s} for s in TERM_SIGNALS]
    per = 2 if tier == 'quick' else 12
    for fate in fates:
        for _ in range(per):
            seq = rng.choice(seqs)
            scn = {'family': 'lifecycle', 'transport': 'pty', 'costs': [3], 'disp': rng.choice(['exited', 'mid_exit', 'after_output']),
                   'fate': fate, 'sig_latency_us': 0, 'exit_gap_us': rng.choice([0, 500]), 'output': rng.choice(['', 'out\r\n']),
                   'ops': [{'op': o} for o in seq], 'timeout': 0.2, 'enum': 'status'}
            if scn['disp'] == 'mid_exit':
                scn['exit_at'] = [rng.randrange(len(seq)), rng.randint(1, 6)]
            out.append(scn)
    for fate in fates:
        for seq in (['wait'], ['expect_eof', 'wait', 'wait']):
            out.append({'family': 'lifecycle', 'transport': 'popen', 'costs': [3], 'disp': 'exited', 'fate': fate, 'exit_gap_us': 0,
                        'output': 'x\n', 'ops': [{'op': o} for o in seq], 'timeout': 0.2, 'sched': [0, 1, 2], 'delayafterread': 0.001,
                        'enum': 'status'})
    L = 2 if tier == 'quick' else 3
    al = ['isalive', 'wait', 'kill', 'terminate', 'terminate_force', 'close', 'close_noforce', 'sendeof', 'expect_eof',
          'send', 'rnb', 'with_exc', 'del', 'aexpect_eof']
    for disp in ['normal', 'ignore', 'stopped', 'exited', 'ignore_stopped']:
        for n in range(1, L + 1):
            for p in itertools.product(al, repeat=n):
                if disp in ('stopped', 'ignore_stopped') and L == 3 and n == 3 and rng.random() < 0.5:
                    continue
                ops = [{'op': o} if o != 'kill' else {'op': 'kill', 'sig': rng.choice([1, 2, 15, 9, 18, 19])} for o in p]
                out.append({'family': 'lifecycle', 'transport': 'pty', 'costs': [3], 'disp': disp, 'fate': {'code': 3},
                            'sig_latency_us': rng.choice([0, 3000]), 'exit_gap_us': rng.choice([0, 2000]), 'output': '',
                            'ops': ops, 'timeout': 0.2, 'enum': 'ops'})
    for tr in ('fd', 'sock'):
        for n in range(1, 4):
            for p in itertools.product(FD_OPS, repeat=n):
                out.append({'family': 'lifecycle', 'transport': tr, 'costs': [3], 'ops': [{'op': o} for o in p], 'timeout': 0.2,
                            'reset': tr == 'sock' and rng.random() < 0.5, 'peer_closes': rng.random() < 0.5, 'enum': 'ops'})
    return out


def decode_status(st):
    if st is None:
        return None
    if os.WIFEXITED(st):
        return ('exit', os.WEXITSTATUS(st))
    if os.WIFSIGNALED(st):
        return ('sig', os.WTERMSIG(st))
    return ('other', st)


def run(scn, prop=None):
    tr = scn['transport']
    sc = dict(scn)

    def body(r):
        w, k = r.w, r.k
        out = []
        state = {'child': None}
        proc_box = {}
        decoys = {}

        def V(clause, msg, **detail):
            detail.update(transport=tr, disp=scn.get('disp'))
            out.append(Violation(clause, msg, detail.pop('site', None), detail))

        # ------------------------------------------------------ build child
        kw = dict(timeout=scn.get('timeout', 0.2), encoding=scn.get('encoding'))
        if tr == 'pty':
            disp = scn.get('disp', 'normal')
            fate = scn.get('fate', {'code': 0})

            def child_gen(a):
                slave = a.proc.handles[0]
                if scn.get('output'):
                    try:
                        yield ('write', slave, scn['output'].encode('latin-1'))
                    except OSError:
                        pass
                if disp in ('stopped', 'ignore_stopped'):
                    yield ('stop',)
                if disp in ('exited', 'after_output'):
                    pass
                elif disp == 'mid_exit' and scn.get('exit_at'):
                    yield ('at', scn['exit_at'][0], scn['exit_at'][1])
                else:
                    while True:
                        yield ('pause',)
                if 'sig' in fate:
                    yield ('killself', fate['sig'])
                else:
                    yield ('exit', fate.get('code', 0))

            def factory(proc, slave, pty):
                proc_box['p'] = proc
                r.proc, r.pty = proc, pty
                pty.attr[1] &= ~OPOST
                proc.exit_gap_us = scn.get('exit_gap_us', 0)
                proc.sig_latency_us = scn.get('sig_latency_us', 0)
                if disp in ('ignore', 'ignore_stopped'):
                    proc.disp[signal.SIGHUP] = 'ign'
                    proc.disp[signal.SIGINT] = 'ign'
                return peers.Actor(w, k, proc, child_gen, 1, 'child')
            w.child_setup = T.default_child_setup(w, factory, pty_kw=dict(eof_flavour=scn.get('eof_flavour', 'eio')))
            kw['use_poll'] = scn.get('use_poll', False)
            child = T.SimSpawn('/bin/simchild', **kw)
            main_of = k.fds.get(child.child_fd)
        elif tr == 'popen':
            disp = scn.get('disp', 'exited')
            fate = scn.get('fate', {'code': 0})

            def pchild_gen(a):
                outw = a.proc.handles[1]
                if scn.get('output'):
                    try:
                        yield ('write', outw, scn['output'].encode('latin-1'))
                    except OSError:
                        pass
                if disp == 'mid_exit' and scn.get('exit_at'):
                    yield ('at', scn['exit_at'][0], scn['exit_at'][1])
                elif disp == 'normal':
                    while True:
                        yield ('pause',)
                if 'sig' in fate:
                    yield ('killself', fate['sig'])
                else:
                    yield ('exit', fate.get('code', 0))

            def psetup(cmd):
                proc = k.new_proc('child')
                proc_box['p'] = proc
                r.proc = proc
                in_r, in_w = k.pipe(65536)
                out_r, out_w = k.pipe(65536)
                proc.handles += [in_r, out_w]
                proc.exit_gap_us = scn.get('exit_gap_us', 0)
                peers.Actor(w, k, proc, pchild_gen, 1, 'child').start(0)
                return proc, in_w, out_r
            w.popen_setup = psetup
            child = T.SimPopenSpawn(['simchild'], timeout=scn.get('timeout', 0.2))
            child.delayafterread = scn.get('delayafterread', 0.001)
            main_of = None
        else:
            a, bb = k.socketpair(65536)
            r.sock_end = bb

            def peer_gen(act):
                yield ('sleep', 50)
                if scn.get('reset'):
                    yield ('call', bb.do_reset)
                if scn.get('peer_closes'):
                    yield ('close', bb)
                while True:
                    yield ('pause',)
            pa = peers.Actor(w, k, None, peer_gen, 1, 'peer')
            pa.start(0)
            if tr == 'sock':
                r.sock = shim.FakeSocket(a)
                child = T.SimSocketSpawn(r.sock, **kw)
            else:
                child = T.SimFdSpawn(k.alloc_fd(a), use_poll=bool(scn.get('use_poll', False)), **kw)
            main_of = a
        state['child'] = child
        r.child = child
        the_log = None
        if scn.get('log'):
            if scn['log'] not in ('logfile', 'logfile_read', 'logfile_send') or tr == 'popen':
                raise HarnessError('bad log attribute in scenario')
            the_log = ClosableLog()
            setattr(child, scn['log'], the_log)
        child.delayafterclose = scn.get('delayafterclose', child.delayafterclose)
        first_fd = child.child_fd
        observed = None        # (exitstatus, signalstatus, status) first seen after death was observed
        reaped_seen = False
        closed_ok = False
        seen_closed = len(k.closed_log)

        def plant_decoys():
            nonlocal seen_closed
            for fd in k.closed_log[seen_closed:]:
                if fd not in k.fds:
                    d = Decoy()
                    k.fds[fd] = d
                    k.watch.add(fd)
                    decoys[fd] = d
                    w.fault('fd_reuse_decoy')
            seen_closed = len(k.closed_log)

        for kx, op in enumerate(scn['ops']):
            o = op['op']
            child = state['child']
            if child is None:
                break
            w.begin_op(kx)
            w.note('op', (kx, o))
            t_mark = len(w.trace)
            proc = proc_box.get('p')
            pre_state = proc.state if proc else None
            res = {'out': 'ret', 'ret': None}
            was_closed = child.closed
            touched_before = dict((fd, len(v)) for fd, v in k.touched.items())
            w.intr_armed = (o != 'del')      # (an exception inside a finaliser is swallowed by the interpreter: not judged)
            try:
                if o == 'isalive':
                    res['ret'] = child.isalive()
                elif o == 'wait':
                    if proc is not None and proc.state == 'stopped':
                        continue          # documented as unsupported: would block for ever
                    res['ret'] = child.wait()
                elif o == 'kill':
                    res['ret'] = child.kill(op.get('sig', 15))
                elif o == 'terminate':
                    res['ret'] = child.terminate(False)
                elif o == 'terminate_force':
                    res['ret'] = child.terminate(True)
                elif o == 'close':
                    res['ret'] = child.close()
                elif o == 'close_noforce':
                    res['ret'] = child.close(False) if tr == 'pty' else child.close()
                elif o == 'sendeof':
                    res['ret'] = child.sendeof()
                elif o == 'expect_eof':
                    res['ret'] = child.expect([EOF, TIMEOUT], timeout=0.05)
                elif o == 'read_all':
                    res['ret'] = child.expect([EOF, TIMEOUT], timeout=0.3)
                elif o == 'aexpect_eof':
                    # the asyncio path: at EOF the transport closes the spawn object itself
                    import asyncio
                    from . import aioloop
                    aioloop.install()
                    if state.get('loop') is None:
                        state['loop'] = aioloop.SimLoop()
                        state['loop'].set_exception_handler(lambda lp, ctx: None)

                    async def aop():
                        rr = await child.expect([EOF, TIMEOUT], timeout=0.3, async_=True)
                        for _ in range(3):
                            await asyncio.sleep(0)      # let the transport finish closing
                        return rr
                    res['ret'] = state['loop'].run_until_complete(aop())
                elif o == 'aexpect_to':
                    # one awaited call under an event loop of its own that is closed afterwards -- what asyncio.run(...) does;
                    # the object lives on and is closed / dropped later, outside any loop
                    import asyncio
                    from . import aioloop
                    aioloop.install()
                    if state.get('loop') is not None or state.get('closed_loops'):
                        raise HarnessError('one event loop per scenario (a second one is the known limitation of the asyncio path)')
                    lp_ = aioloop.SimLoop()
                    lp_.set_exception_handler(lambda lp, ctx: None)
                    state.setdefault('closed_loops', []).append(lp_)

                    async def aop2():
                        return await child.expect([TIMEOUT, EOF], timeout=0.01, async_=True)
                    try:
                        res['ret'] = lp_.run_until_complete(aop2())
                    finally:
                        lp_.close()
                    w.probe('event_loop_closed_while_the_object_lives_on')
                elif o == 'send':
                    res['ret'] = child.send(b'INTRUDER' if child.encoding is None else u'INTRUDER')
                elif o == 'sendline':
                    res['ret'] = child.sendline(b'x' if child.encoding is None else u'x')
                elif o == 'rnb':
                    res['ret'] = child.read_nonblocking(10, 0.01)
                elif o == 'closelog':
                    # the application is done with its log file; the spawn object still refers to it
                    if the_log is None:
                        raise HarnessError('closelog without a log')
                    the_log.closed = True
                    w.probe('log_file_closed_before_the_spawn_object')
                elif o in ('isatty', 'getecho', 'getwinsize', 'fileno', 'flush', 'eof'):
                    res['ret'] = getattr(child, o)()
                elif o == 'setecho':
                    res['ret'] = child.setecho(False)
                elif o == 'setwinsize':
                    res['ret'] = child.setwinsize(30, 100)
                elif o == 'sendcontrol':
                    res['ret'] = child.sendcontrol('g')
                elif o == 'sendintr':
                    res['ret'] = child.sendintr()
                elif o == 'waitnoecho':
                    res['ret'] = child.waitnoecho(timeout=0.01)
                elif o == 'readline':
                    res['ret'] = child.readline()
                elif o == 'with_exc':
                    try:
                        with child:
                            raise KeyError('boom')
                    except KeyError:
                        pass
                elif o == 'del':
                    state['child'] = None
                    r.child = None
                    child.expect_list = None
                    child.expect_exact = None
                    if the_log is not None:
                        for nm_ in ('logfile', 'logfile_read', 'logfile_send'):
                            setattr(child, nm_, None)
                    child = None
                    # dropping the last reference is what "del child" means to the caller: the object is expected to
                    # clean up then, not whenever the cyclic collector happens to run next
                    state['freed_on_del'] = (proc is None or proc.state == 'reaped' or not proc.alive()) and \
                        not getattr(main_of, 'open', False) if tr == 'pty' else None
                    gc.collect()
                else:
                    raise HarnessError('unknown op %r' % o)
            except (EOF, TIMEOUT) as e:
                res = {'out': type(e).__name__, 'exc': _strip_tb(e)}
            except SimHang as e:
                res = {'out': 'HANG', 'exc': _strip_tb(e)}
            except HarnessError:
                raise
            except SimInterrupt as e:
                # abandoned from outside (Ctrl-C, a raising signal handler) while it waited; the application goes on.
                # Nothing is claimed about what the abandoned operation achieved; every invariant about the object's
                # claims (liveness, status, handles) holds as after any other operation.
                res = {'out': 'INTR', 'exc': _strip_tb(e)}
                w.probe('lifecycle_operation_interrupted_from_outside')
            except Exception as e:
                res = {'out': 'EXC', 'exc': e, 'site': harness._tb_site(e)}
                _strip_tb(e)
            finally:
                w.intr_armed = False
            plant_decoys()
            det = {'op': kx, 'opname': o, 'outcome': res['out'], 'ret': repr(res.get('ret'))[:40],
                   'exc': repr(res.get('exc'))[:160], 'ops': [x['op'] for x in scn['ops'][:kx + 1]]}
            # ---------------------------------------------------- invariants
            if res['out'] == 'HANG' and o == 'wait' and proc is not None and proc.alive():
                break        # wait() on a child that never exits blocks by design
            if res['out'] == 'HANG':
                V('C10.hang', '%s never returned: %s' % (o, res['exc']), **det)
                break
            # decoy touched by this op?
            for fd, calls in k.touched.items():
                n0 = touched_before.get(fd, 0)
                if len(calls) > n0:
                    c = calls[n0]
                    V('C10.decoy_touched', '%s touched descriptor %d, which was closed earlier and now belongs to someone else (%s at %s)'
                      % (o, fd, c[0], c[1]), site='%s@%s' % (c[0], c[1][1] if c[1] else None), **det)
                    break
            if k.stale_kills and not out:
                sk = k.stale_kills[0]
                V('C10.signal_after_reap', '%s sent signal %d to pid %d after pexpect itself had reaped it (%s)'
                  % (o, sk[1], sk[0], sk[2]), site='kill@%s' % (sk[2][1] if sk[2] else None), **det)
            if out:
                break
            if state['child'] is None and (state.get('loop') is not None or state.get('closed_loops')):
                break      # the event loop's transport still refers to the object: it is not garbage yet
            if res['out'] in ('EXC', 'INTR', 'HANG'):
                state['raised'] = True
            if state['child'] is None:
                if state.get('freed_on_del') is False and state.get('raised'):
                    # an exception that passed through the object's methods may have left a frame <-> traceback cycle behind
                    # (the language does that by itself wherever an exception is kept in a local, contextlib.ExitStack for one):
                    # such an object goes with the next collector run, which is all the statement asks for
                    w.probe('del_after_an_exception_not_judged_for_immediacy')
                elif state.get('freed_on_del') is False and state.get('loop') is None:
                    w.probe('del_needed_the_cyclic_collector')
                    V('C10.leak_until_gc', 'the last reference to the object was dropped, but its child / descriptor stayed until the '
                      'cyclic garbage collector was run by hand (the object keeps itself alive through a reference cycle)', **det)
                elif state.get('freed_on_del') is True:
                    w.probe('del_freed_at_once')
                # object dropped: nothing may remain
                if proc is not None and proc.state != 'reaped':
                    # __del__ on ptyprocess closes with force
                    V('C10.leak_after_del', 'object dropped but the child is %s' % proc.state, **det)
                if getattr(main_of, 'open', True) and tr == 'pty':
                    V('C10.leak_after_del', 'object dropped but its descriptor is still open', **det)
                break
            if proc is not None:
                kdead = proc.state in ('closing', 'zombie', 'reaped')
                if o == 'isalive' and res['out'] == 'ret':
                    if res['ret'] is True and kdead and proc.state == 'reaped':
                        V('C10.alive_after_reap', 'isalive() returned True for a reaped child', **det)
                    if res['ret'] is False and not kdead:
                        V('C10.dead_but_running', 'isalive() returned False but the kernel says the child is %s' % proc.state, **det)
                if child.terminated and not kdead and tr != 'popen':
                    V('C10.dead_but_running', 'terminated is True but the kernel says the child is %s' % proc.state, **det)
                if proc.state == 'reaped':
                    reaped_seen = True
                if o == 'terminate_force' and res['out'] == 'ret' and res['ret'] is True and proc.state != 'reaped':
                    V('C10.not_reaped', 'terminate(force=True) returned True but the child is %s' % proc.state, **det)
                if o == 'terminate_force' and res['out'] == 'ret' and res['ret'] is not True:
                    V('C10.not_killed', 'terminate(force=True) returned %r; child is %s' % (res['ret'], proc.state), **det)
                if o in ('close', 'with_exc') and res['out'] == 'ret' and proc.state != 'reaped':
                    V('C10.not_reaped', '%s returned but the child is %s' % (o, proc.state), **det)
                if o in ('close', 'close_noforce', 'with_exc') and res['out'] == 'ret':
                    if getattr(main_of, 'open', False):
                        V('C10.fd_leak', '%s returned but the descriptor is still open' % o, **det)
                    if not child.closed or child.child_fd != -1:
                        V('C10.stale_handle', '%s returned but closed=%r child_fd=%r' % (o, child.closed, child.child_fd), **det)
                # C09: status truth (PopenSpawn starts with terminated=True and learns the status only in wait())
                if tr == 'popen' and o == 'wait' and res['out'] == 'ret':
                    state['waited'] = True
                if child.terminated and (tr != 'popen' or state.get('waited')):
                    truth = decode_status(proc.status)
                    claim = (child.exitstatus, child.signalstatus, child.status)
                    es, ss, stt = claim
                    ok = True
                    if truth is None:
                        ok = False
                    elif truth[0] == 'exit':
                        ok = (es == truth[1] and ss is None)
                    elif truth[0] == 'sig':
                        ok = (es is None and ss == truth[1])
                    if not ok:
                        V('C09.status', 'exitstatus/signalstatus %r/%r but the child really %s' % (es, ss, truth), **det)
                    elif stt is not None and decode_status(stt) != truth:
                        V('C09.status_word', 'status %r decodes to %s, child really %s' % (stt, decode_status(stt), truth), **det)
                    elif stt is None and tr != 'popen':
                        V('C09.status_word', 'terminated but status is None', **det)
                    if observed is None:
                        observed = claim
                    elif claim != observed:
                        V('C09.unstable', 'status values changed from %r to %r' % (observed, claim), **det)
                    if o == 'wait' and res['out'] == 'ret' and truth is not None:
                        want = truth[1] if truth[0] == 'exit' else (None if tr != 'popen' else res['ret'])
                        if res['ret'] != want:
                            V('C09.wait_return', 'wait() returned %r, exit code is %r' % (res['ret'], want), **det)
                if o == 'aexpect_eof' and res['out'] == 'ret' and child.closed and proc.state != 'reaped' and not was_closed:
                    V('C10.not_reaped', 'awaited expect reached EOF and asyncio closed the object, but the child is %s' % proc.state, **det)
                if (o == 'wait' and res['out'] == 'ret') or (o == 'isalive' and res.get('ret') is False) or \
                        (o in ('close', 'with_exc') and res['out'] == 'ret') or \
                        (o in ('terminate', 'terminate_force') and res['out'] == 'ret' and res.get('ret') is True and tr == 'pty') or \
                        (o == 'aexpect_eof' and res['out'] == 'ret' and child.closed and not was_closed):
                    if not child.terminated:
                        V('C09.unobserved', '%s completed but terminated is still False' % o, **det)
                hit_eof = (o in ('expect_eof', 'read_all') and res['out'] == 'ret' and res.get('ret') == 0) or \
                    (o in ('rnb', 'readline') and res['out'] == 'EOF')
                if hit_eof and tr == 'pty' and not was_closed and proc.state in ('zombie', 'reaped') and not scn.get('exit_gap_us') \
                        and not child.terminated and not out:
                    # "observed it (through ... a read that hit EOF)": the child was dead and reapable when its end of stream was read
                    w.probe('eof_read_with_dead_child')
                    V('C09.unobserved', '%s hit EOF on a child that had terminated (kernel: %s), but terminated is still False and '
                      'exitstatus/signalstatus are %r/%r' % (o, proc.state, child.exitstatus, child.signalstatus), **det)
            else:
                if o in ('close', 'close_noforce', 'with_exc') and res['out'] == 'ret':
                    if getattr(main_of, 'open', False):
                        V('C10.fd_leak', '%s returned but the descriptor is still open' % o, **det)
                    if not child.closed or child.child_fd != -1:
                        V('C10.stale_handle', '%s returned but closed=%r child_fd=%r' % (o, child.closed, child.child_fd), **det)
                if o in ('close', 'close_noforce', 'with_exc') and res['out'] == 'EXC' and scn.get('reset'):
                    if getattr(main_of, 'open', False):
                        V('C10.fd_leak', '%s raised %s and left the descriptor open' % (o, type(res['exc']).__name__), **det)
                if o == 'isalive' and res['out'] == 'ret' and res['ret'] is True and not getattr(main_of, 'open', True):
                    V('C10.alive_after_close', 'isalive() is True although the descriptor is closed', **det)
            # close() idempotent: second close makes no descriptor call
            if o in ('close', 'close_noforce', 'with_exc') and was_closed and res['out'] == 'ret':
                fdcalls = [e for e in w.trace[t_mark:] if e[3] in ('close', 'read', 'write', 'shutdown', 'sock_close', 'sendall', 'recv')
                           and e[2] == 'main']
                if fdcalls:
                    V('C10.double_close', 'close() on a closed object issued %s' % (fdcalls[0][3],), **det)
            # I/O after close must fail
            if was_closed and o in ('send', 'sendline', 'rnb', 'expect_eof', 'read_all', 'sendeof') and res['out'] == 'ret':
                V('C10.io_after_close', '%s succeeded on a closed object (returned %r)' % (o, res.get('ret')), **det)
            if res['out'] == 'EXC' and not isinstance(res['exc'], (pexpect.ExceptionPexpect, OSError, ValueError)):
                V('C10.exception', '%s raised %s: %s' % (o, type(res['exc']).__name__, res['exc']), site=res.get('site'), **det)
            if out:
                break
        # ---------------------------------------------------------- the end
        child = state['child']
        if child is not None and not out and tr != 'popen':
            # a closed object must not own a live descriptor; an unclosed one is closed now and must clean up
            try:
                child.close()
                plant_decoys()
                proc = proc_box.get('p')
                if proc is not None and proc.state != 'reaped':
                    V('C10.not_reaped', 'final close() returned but the child is %s' % proc.state, ops=[x['op'] for x in scn['ops']])
                if getattr(main_of, 'open', False):
                    V('C10.fd_leak', 'final close() left the descriptor open', ops=[x['op'] for x in scn['ops']])
            except SimHang as e:
                V('C10.hang', 'final close() never returned: %s' % e, ops=[x['op'] for x in scn['ops']])
            except HarnessError:
                raise
            except Exception as e:
                if getattr(main_of, 'open', False) and not isinstance(e, pexpect.ExceptionPexpect):
                    V('C10.fd_leak', 'final close() raised %s and left the descriptor open' % type(e).__name__,
                      ops=[x['op'] for x in scn['ops']], exc=repr(e)[:200])
        for lp_ in state.get('closed_loops', []):
            lp_.detach_all()
        if state.get('loop') is not None:
            state['loop'].detach_all()
            try:
                state['loop'].close()
            except Exception:
                pass
        info = collect_info(r)
        info['counters'] = {'tr:%s' % tr: 1, 'disp:%s' % scn.get('disp'): 1, 'nops': len(scn['ops']),
                            'enum:%s' % scn.get('enum'): 1}
        if tr == 'popen':
            # the piped-subprocess transport is in C09's quantifier only (C10 lists pty, fd, socket)
            out = [v for v in out if v.clause.startswith('C09')]
        if prop is not None:
            out = [v for v in out if v.clause.startswith(prop)]
        return out, info
    return harness.run_with(sc, body)
