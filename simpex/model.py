"""Reference models (oracles).  RefExpect is the naive procedure the properties
name: after each read, search all pending text (or its last W characters) with
plain re.search / str.find; leftmost occurrence wins, lowest list index on ties.
"""
import re

import pexpect

EOF = pexpect.EOF
TIMEOUT = pexpect.TIMEOUT


def naive_search(text, patterns, exact, W):
    """patterns: list of (list_index, pattern) with text patterns only.
    Returns None or (list_index, start, end, matchobj|None) with absolute
    offsets into text."""
    off = 0
    if W:
        off = max(0, len(text) - W)
    window = text[off:] if off else text
    best = None
    for idx, p in patterns:
        if exact:
            n = window.find(p)
            if n < 0:
                continue
            cand = (n, idx, n + len(p), None)
        else:
            m = p.search(window)
            if m is None:
                continue
            cand = (m.start(), idx, m.end(), m)
        if best is None or cand[0] < best[0]:
            best = cand
    if best is None:
        return None
    return (best[1], off + best[0], off + best[2], best[3])


class RefExpect(object):
    def __init__(self, string_type):
        self.st = string_type
        self.pending = string_type()

    def set_pending(self, v):
        self.pending = v

    def call(self, plist, exact, W, chunks):
        """Evaluate one expect-family call over the chunk sequence delivered
        during it.  plist: the full pattern list incl. EOF/TIMEOUT markers.
        Returns dict: kind 'match' -> j (chunks consumed; 0 = pending text),
        index, before, after, span; kind 'none' -> j == len(chunks)."""
        pats = [(i, p) for i, p in enumerate(plist) if p is not EOF and p is not TIMEOUT]
        r = naive_search(self.pending, pats, exact, W)
        j = 0
        while r is None and j < len(chunks):
            self.pending = self.pending + chunks[j]
            j += 1
            r = naive_search(self.pending, pats, exact, W)
        if r is None:
            return {'kind': 'none', 'j': j}
        idx, s, e, m = r
        return {'kind': 'match', 'j': j, 'index': idx, 'start': s, 'end': e,
                'before': self.pending[:s], 'after': self.pending[s:e],
                'rest': self.pending[e:], 'm': m}

    def commit_match(self, res):
        self.pending = res['rest']

    def commit_eof(self):
        b = self.pending
        self.pending = self.st()
        return b
