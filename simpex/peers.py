"""Actors: the peers of the code under test, written as generators that yield
kernel requests.  The world steps them; they never run concurrently with the
CUT, only at event times, at ordinal triggers, or when the CUT blocks.

Requests (tuples):
  ('sleep', us)            ('at', k, n)  wait until just before the n-th call of op k
  ('write', h, data)       -> bytes written (blocks until complete)
  ('write_some', h, data)  -> bytes written now (>=1; blocks for room)
  ('read', h, n)           -> bytes (b'' at EOF); OSError thrown into the generator
  ('close', h)             ('exit', code)        ('killself', sig)
  ('stop',)                ('pause',)  block until a signal handler wakes it
  ('call', fn)             run fn() now
"""
import signal as _signal

from .world import HarnessError


class Actor(object):
    def __init__(self, world, kernel, proc, genfn, react_us=1, name=None):
        self.w = world
        self.k = kernel
        self.proc = proc
        self.dead = False
        self.react_us = react_us
        self.name = name or (proc.name if proc is not None else 'actor')
        self.gen = genfn(self)
        self.waiting = None          # current blocking request
        self.scheduled = False
        self.woken = False
        self.log = []                # transcript: (t, kind, data)
        self.intr = False            # a handled signal is pending for an interruptible read
        if proc is not None:
            proc.actor = self

    def start(self, delay_us=0):
        self.w.after(delay_us, self._resume)

    # transcript helpers
    def rec(self, kind, data):
        self.log.append((self.w.now, kind, data))

    def wake(self):
        """Wake from ('pause',)."""
        self.woken = True
        if self.waiting is not None and self.waiting[0] == 'pause':
            self._schedule()

    def interrupt(self):
        """Called from a signal handler: an interruptible read returns None."""
        self.intr = True
        if self.waiting is not None and self.waiting[0] == 'read' and len(self.waiting) > 3:
            self._schedule()

    def _schedule(self):
        if not self.scheduled and not self.dead:
            self.scheduled = True
            self.w.after(self.react_us, self._retry)

    def _retry(self):
        self.scheduled = False
        if self.dead:
            return
        req = self.waiting
        if req is None:
            return
        self.waiting = None
        r = self._handle(req)
        if r is not None:
            self._resume(r[0], r[1])

    def _resume(self, value=None, exc=None):
        if self.dead:
            return
        self.waiting = None
        while True:
            try:
                if exc is not None:
                    req = self.gen.throw(exc)
                else:
                    req = self.gen.send(value)
            except StopIteration:
                if self.proc is not None and self.proc.alive():
                    self.k.die(self.proc, code=0)
                self.dead = True
                return
            except HarnessError:
                raise
            except Exception as e:
                raise HarnessError('actor %s raised %r' % (self.name, e))
            exc = None
            value = None
            r = self._handle(req)
            if r is None:
                return       # blocked; continuation scheduled elsewhere
            value, exc = r
            if self.dead:
                return

    def _handle(self, req):
        """Perform req. Return (value, exc) if complete, None if blocked."""
        kind = req[0]
        w, k = self.w, self.k
        if self.proc is not None and self.proc.state == 'stopped':
            # a stopped process does nothing until continued
            self.waiting = req
            k.waiters.append(self._on_kick)
            return None
        if kind == 'sleep':
            self.waiting = ('sleeping',)
            w.after(req[1], self._after_sleep)
            return None
        if kind == 'at':
            self.waiting = ('at',)
            w.on_ordinal(req[1], req[2], self._after_sleep)
            return None
        if kind == 'write' or kind == 'write_some':
            h, data = req[1], req[2]
            done = req[3] if len(req) > 3 else 0
            try:
                while True:
                    if not data:
                        res = (done, None)
                        break
                    if h.write_room() <= 0:
                        self.waiting = (kind, h, data, done)
                        k.waiters.append(self._on_kick)
                        return None
                    n = h.write_now(data)
                    done += n
                    data = data[n:]
                    if kind == 'write_some' and n:
                        res = (done, None)
                        break
            except OSError as e:
                res = (None, e)
            return res
        if kind == 'read':
            h, n = req[1], req[2]
            if len(req) > 3 and self.intr:
                self.intr = False
                return (None, None)       # interrupted by a signal handler
            if not h.readable():
                self.waiting = req
                k.waiters.append(self._on_kick)
                return None
            try:
                res = (h.read_now(n), None)
            except OSError as e:
                res = (None, e)
            return res
        if kind == 'close':
            req[1].close()
            if self.proc is not None and req[1] in self.proc.handles:
                self.proc.handles.remove(req[1])
            return (None, None)
        if kind == 'exit':
            self.dead = True
            if self.proc is not None:
                k.die(self.proc, code=req[1])
            return (None, None)
        if kind == 'killself':
            self.dead = True
            if self.proc is not None:
                k.die(self.proc, signal=req[1])
            return (None, None)
        if kind == 'stop':
            if self.proc is not None:
                k._deliver(self.proc, _signal.SIGSTOP)
            return (None, None)
        if kind == 'pause':
            if self.woken:
                self.woken = False
                return (None, None)
            self.waiting = req
            return None
        if kind == 'noop':
            return (None, None)
        if kind == 'call':
            return (req[1](), None)
        raise HarnessError('unknown actor request %r' % (kind,))

    def _after_sleep(self):
        if self.dead:
            return
        if self.proc is not None and self.proc.state == 'stopped':
            self.waiting = ('noop',)
            self.k.waiters.append(self._on_kick)
            return
        self._resume()

    def _on_kick(self):
        if self.dead:
            return
        req = self.waiting
        if req is None:
            return
        if self.proc is not None and self.proc.state == 'stopped':
            self.k.waiters.append(self._on_kick)
            return
        kind = req[0]
        ready = True
        if kind == 'read':
            ready = req[1].readable() or (len(req) > 3 and self.intr)
        elif kind in ('write', 'write_some'):
            ready = req[1].write_room() > 0
        if ready:
            self._schedule()
        else:
            self.k.waiters.append(self._on_kick)


# --------------------------------------------------------------------------
# Library of peers.  Each returns a generator function taking the Actor.
# --------------------------------------------------------------------------

def writer(out, steps, wrote=None):
    """Scripted writer.  steps: list of dicts
         {'op':'w','d':bytes,'dt':us}            write after dt
         {'op':'w','d':bytes,'at':[k,n]}         write just before call n of op k
         {'op':'sleep','dt':us}
         {'op':'close'}   close the output handle (hang-up, process lives on)
         {'op':'exit','code':c} / {'op':'kill','sig':s} / {'op':'stop'} / {'op':'pause'}
       `wrote` collects the bytes actually written (list of bytes)."""
    def gen(a):
        for st in steps:
            op = st.get('op', 'w')
            if op == 'loop':
                d = st['d']
                for _ in range(int(st.get('n', 1))):
                    yield ('sleep', st.get('dt', 1))
                    try:
                        yield ('write', out, d)
                    except OSError:
                        return
                    if wrote is not None:
                        wrote.append(d)
                continue
            if 'at' in st and st['at'] is not None:
                yield ('at', st['at'][0], st['at'][1])
            elif st.get('dt'):
                yield ('sleep', st['dt'])
            if op == 'w':
                d = st['d']
                try:
                    yield ('write', out, d)
                except OSError:
                    return
                if wrote is not None:
                    wrote.append(d)
                a.rec('w', d)
            elif op == 'reset':
                yield ('call', out.do_reset)      # stream socket aborted by the peer (RST)
            elif op == 'close':
                yield ('close', out)
            elif op == 'exit':
                yield ('exit', st.get('code', 0))
            elif op == 'kill':
                yield ('killself', st['sig'])
            elif op == 'stop':
                yield ('stop',)
            elif op == 'pause':
                yield ('pause',)
            elif op == 'echo_off':
                out.pty.attr[3] &= ~8      # ECHO
                a.k.kick()
            elif op == 'sleep':
                pass
        # falling off the end: exit(0) if it is a process
    return gen


def sink(inp, received, echo_to=None, chunk=4096, on_eof='exit', delay_us=0, stall_after=None):
    """Reads everything from inp, records it; optionally echoes to echo_to.  With stall_after=N it stops reading
    for good once N bytes have arrived (a peer that is alive but no longer drains its socket)."""
    def gen(a):
        total = 0
        while True:
            if stall_after is not None and total >= stall_after:
                while True:
                    yield ('pause',)
            try:
                d = yield ('read', inp, chunk)
            except OSError:
                d = b''
            if not d:
                break
            received.append(d)
            total += len(d)
            a.rec('r', d)
            if delay_us:
                yield ('sleep', delay_us)
            if echo_to is not None:
                try:
                    yield ('write', echo_to, d)
                except OSError:
                    break
        if on_eof == 'exit':
            yield ('exit', 0)
        else:
            while True:
                yield ('pause',)
    return gen
