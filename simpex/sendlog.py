"""C08 (send fidelity) and C11 (logging fidelity) family.

The peer is a raw-mode sink / cat that reports exactly what it received; the
driver performs a seeded history of send-family calls interleaved with reads.
"""
import codecs
import socket as _socket

from . import harness
from . import peers
from . import shim
from . import transports as T
from .engine import Violation, gen_costs, collect_info
from .harness import EOF, TIMEOUT
from .kernel import PtyMaster, PtySlave, ECHO, ICANON, ISIG, ICRNL, OPOST, IEXTEN
from .world import SimHang, HarnessError, SimInterrupt

CONTROL_NAMES = [chr(c) for c in range(ord('a'), ord('z') + 1)] + ['@', '`', '[', '{', '\\', '|', ']', '}', '^', '~', '_', '?',
                                                                  'A', 'Z', '1', '!', ' ', '-']
CTRL_MAP = {'@': 0, '`': 0, '[': 27, '{': 27, '\\': 28, '|': 28, ']': 29, '}': 29, '^': 30, '~': 30, '_': 31, '?': 127}


def control_byte(name):
    c = name.lower()
    a = ord(c)
    if 97 <= a <= 122:
        return bytes([a - 96])
    if c in CTRL_MAP:
        return bytes([CTRL_MAP[c]])
    return b''


class SeqLog(object):
    """Log file double sharing one sequence counter with the other logs."""

    def __init__(self, ctr, name):
        self.ctr = ctr
        self.name = name
        self.events = []

    def write(self, s):
        self.ctr[0] += 1
        self.events.append(('w', self.ctr[0], s))

    def flush(self):
        self.ctr[0] += 1
        self.events.append(('f', self.ctr[0]))

    def writes(self):
        return [e[2] for e in self.events if e[0] == 'w']


class LenLog(SeqLog):
    """A log that also is a container (an in-memory transcript with len(), a list or deque subclass with write/flush):
    empty, it is falsy -- and still the log."""

    def __len__(self):
        return len(self.events)


def make_log(scn, ctr, name):
    return (LenLog if scn.get('log_kind') == 'len' else SeqLog)(ctr, name)


_POOLS = {}


def gen_payload(rng, mode, enc=None):
    r = rng.random()
    n = rng.choice([0, 1, 2, 5, 20]) if r < 0.9 else rng.randint(100, 3000)
    if mode == 'bytes':
        return ''.join(chr(rng.randrange(256)) for _ in range(n))
    pool = u'abc \r\n\t\xe9\xfc€あア中\U0001f600\x00\x03\x04\x7f'
    if enc not in (None, 'latin-1') and enc not in _POOLS:
        ok = u''
        for ch in pool:
            try:
                ch.encode(enc)
                ok += ch
            except UnicodeError:
                pass
        _POOLS[enc] = ok
    pool = _POOLS.get(enc, pool)
    return u''.join(rng.choice(pool) for _ in range(n))


def generate(rng, prop='C08'):
    scn = {'family': 'sendlog'}
    tr = rng.choice(['pty'] * 4 + ['fd', 'sock', 'popen'])
    scn['transport'] = tr
    scn['costs'] = gen_costs(rng)
    enc = rng.choice([None, None, 'utf-8', 'utf-8', 'utf-16', 'latin-1', 'utf-32', 'iso2022_jp', 'iso2022_jp'])
    scn['enc'] = enc
    if enc == 'latin-1':
        scn['errors'] = rng.choice(['replace', 'ignore'])
    scn['echo'] = rng.random() < (0.5 if prop == 'C08' else 0.8)     # peer is cat (echoes) or sink
    scn['delaybeforesend'] = rng.choice([0.05, None, 0.001])
    if rng.random() < 0.3:
        scn['in_cap'] = rng.choice([1, 3, 16, 64])
        scn['peer_delay_us'] = rng.choice([0, 10, 500])
    if rng.random() < 0.3:
        scn['tear'] = [rng.choice([1, 1, 2, 0]) for _ in range(rng.randint(1, 4))]
    logs = rng.choice([[], ['logfile'], ['logfile_read'], ['logfile_send'], ['logfile', 'logfile_send'],
                       ['logfile', 'logfile_read', 'logfile_send'], ['logfile_read', 'logfile_send']])
    if prop == 'C11' and not logs:
        logs = ['logfile']
    scn['logs'] = logs
    if tr == 'popen':
        scn['sched'] = [rng.randint(0, 3) for _ in range(rng.randint(1, 8))]
        scn['delayafterread'] = 0.0005
    ops = []
    import os
    n = rng.randint(1, 10)
    if os.environ.get('SIMPEX_TIER') == 'thorough' and rng.random() < 0.4:
        n = rng.randint(10, 40)
    for _ in range(n):
        r = rng.random()
        as_ = None
        if enc is None:
            mode = 'bytes'
            if rng.random() < 0.25:
                mode, as_ = 'text', 'text'
        else:
            mode = 'text'
        if r < 0.35:
            op = {'op': 'send', 'd': gen_payload(rng, mode, enc)}
        elif r < 0.55:
            op = {'op': 'sendline', 'd': gen_payload(rng, mode, enc)}
        elif r < 0.65:
            op = {'op': 'write', 'd': gen_payload(rng, mode, enc)}
        elif r < 0.72:
            op = {'op': 'writelines', 'd': [gen_payload(rng, mode, enc) for _ in range(rng.randint(0, 3))],
                  'seq': rng.choice(['list', 'list', 'tuple', 'iter', 'gen'])}
        elif r < 0.84 and tr == 'pty' and not (scn['echo'] and enc in ('utf-16', 'utf-32', 'iso2022_jp')):
            k = rng.random()
            if k < 0.6:
                op = {'op': 'sendcontrol', 'c': rng.choice(CONTROL_NAMES)}
            elif k < 0.8:
                op = {'op': 'sendeof'}
            else:
                op = {'op': 'sendintr'}
        elif r < 0.92:
            op = {'op': 'drain', 'to': rng.choice([0, 0.001, 0.01])}
        else:
            op = {'op': 'gap', 'dt': rng.choice([5, 100, 3000])}
        if as_ and op['op'] in ('send', 'sendline', 'write', 'writelines'):
            op['as'] = as_
        if op['op'] == 'sendline' and tr in ('pty', 'popen') and rng.random() < 0.15:
            op.pop('d')
            op['nodata'] = True
        ops.append(op)
    ops.append({'op': 'drain', 'to': 0.02})
    big = None
    if tr == 'pty' and rng.random() < 0.15:
        # fault configuration: a blocking write to the pty is cut short (a signal arrives after part of a long string was
        # taken).  Judged per call with a deliberately relaxed oracle: the peer gets a PREFIX of what the call was asked to
        # send, send()/sendline() return exactly the number of bytes that arrived, never anything else
        scn['short_writes'] = [rng.choice([0, 1, 2, 3, 7, 100, 1000]) for _ in range(rng.randint(1, 4))]
        scn['echo'] = False      # an echo of a truncated character is not decodable text: nothing to read back
        big = rng.choice([30, 300, 3000])
    elif tr == 'sock' and rng.random() < 0.2:
        # fault configuration: the application gave its socket a timeout and the peer stops reading, so a large
        # sendall() gives up after part of the data was delivered.  The failed call was still ASKED to send its argument
        scn['send_fail'] = {'stall_after': rng.choice([0, 10, 1000]), 'sock_timeout': rng.choice([0.001, 0.01])}
        scn['in_cap'] = rng.choice([16, 64, 512])
        scn['echo'] = False
        big = rng.choice([3000, 6000])
    if big:
        mode = 'bytes' if enc is None else 'text'
        d = u''
        while len(d) < big:
            d += gen_payload(rng, mode, enc) or u'x'
        ops = [op if op['op'] != 'writelines' else dict(op, op='write', d=''.join(op['d'])) for op in ops]
        ops.insert(rng.randint(0, len(ops) - 1), {'op': rng.choice(['send', 'send', 'sendline', 'write']), 'd': d})
    if rng.random() < 0.2 and len(ops) >= 2:
        # the caller re-tunes a long-lived object between calls: another log file (or none), another line separator,
        # another delay before sending.  Each log object must hold the transcript of exactly the period it was attached
        for _ in range(rng.randint(1, 3)):
            k = rng.random()
            if k < 0.6:
                op = {'op': 'setlog', 'name': rng.choice(['logfile', 'logfile_read', 'logfile_send']), 'to': rng.choice(['new', 'new', 'none'])}
            elif k < 0.85:
                op = {'op': 'setattr', 'k': 'linesep', 'v': rng.choice(['\n', '\r\n', '\r', ';'])}
            else:
                op = {'op': 'setattr', 'k': 'delaybeforesend', 'v': rng.choice([None, 0.0, 0.002])}
            ops.insert(rng.randint(0, len(ops) - 1), op)
    if tr in ('pty', 'fd') and rng.random() < 0.2:
        # some reads are awaited (asyncio protocol path: data_received decodes and logs), mixed with blocking ones
        for op in ops:
            if op['op'] == 'drain' and rng.random() < 0.7:
                op['op'] = 'adrain'
                op['to'] = rng.choice([0, 0, 0.001, 0.01, 0.02])
    scn['ops'] = ops
    if rng.random() < 0.25:
        scn['log_kind'] = 'len'
    if tr == 'pty' and not scn.get('short_writes') and rng.random() < 0.1:
        # an exception from outside (a raising signal handler, Ctrl-C) abandons a send in its delaybeforesend pause; the
        # application sends again afterwards
        scn['intr'] = sorted([rng.randint(1, 6), rng.choice([1, 50, 5000])] for _ in range(rng.randint(1, 2)))
        if rng.random() < 0.5:
            scn['delaybeforesend'] = rng.choice([0.05, 0.01])
    return scn


def run(scn, prop=None):
    tr = scn['transport']
    enc = scn.get('enc')
    sc = dict(scn)
    sc['timeout'] = 1

    def body(r):
        w, k = r.w, r.k
        received = []
        react = 1
        echo = scn.get('echo', False)
        delay = scn.get('peer_delay_us', 0)
        cap = scn.get('in_cap', 4096)
        kw = dict(timeout=1, maxread=2000, encoding=enc, codec_errors=scn.get('errors', 'strict'))
        inlog = None
        if tr == 'pty':
            def factory(proc, slave, pty):
                r.proc, r.pty = proc, pty
                # raw terminal: the line discipline must not mask anything
                pty.attr[0] = 0
                pty.attr[1] &= ~OPOST
                pty.attr[3] &= ~(ECHO | ICANON | ISIG | IEXTEN)
                pty.in_cap = cap
                a = peers.Actor(w, k, proc, peers.sink(slave, received, slave if echo else None, 4096, 'exit', delay), react, 'child')
                return a
            w.child_setup = T.default_child_setup(w, factory)
            child = T.SimSpawn('/bin/simcat', **kw)
        elif tr in ('fd', 'sock'):
            a, bb = k.socketpair(cap, 1 << 20)
            r.sock_end = bb
            r.child_end = a
            sf = scn.get('send_fail')
            if sf and tr != 'sock':
                raise HarnessError('send_fail is a socket configuration')
            peer = peers.Actor(w, k, None, peers.sink(bb, received, bb if echo else None, 4096, 'pause', delay,
                                                      stall_after=sf['stall_after'] if sf else None), react, 'peer')
            peer.start(0)
            if tr == 'sock':
                r.sock = shim.FakeSocket(a)
                if sf:
                    r.sock.settimeout(sf['sock_timeout'])
                child = T.SimSocketSpawn(r.sock, **kw)
            else:
                fd = k.alloc_fd(a)
                child = T.SimFdSpawn(fd, **kw)
            inlog = a.tx
        else:
            def setup(cmd):
                proc = k.new_proc('child')
                r.proc = proc
                in_r, in_w = k.pipe(cap)
                out_r, out_w = k.pipe(65536)
                proc.handles += [in_r, out_w]
                peer = peers.Actor(w, k, proc, peers.sink(in_r, received, out_w if echo else None, 4096, 'exit', delay), react, 'child')
                peer.start(0)
                r.popen_inpipe = in_r.p
                r.popen_outpipe = out_r.p
                return proc, in_w, out_r
            w.popen_setup = setup
            child = T.SimPopenSpawn(['simcat'], **kw)
        r.child = child
        shorts = bool(scn.get('short_writes'))
        if shorts:
            if tr != 'pty' or scn.get('echo'):
                raise HarnessError('short writes are a configuration of the pty transport with a non-echoing peer')
            if any(op['op'] == 'writelines' for op in scn['ops']):
                raise HarnessError('writelines is not judged under short writes')
            w.short_fd = child.child_fd
        for attr in ('delaybeforesend', 'delayafterread'):
            if attr in scn:
                setattr(child, attr, scn[attr])
        ctr = [0]
        logs = {}
        periods = {}                # name -> [[log object, first event index, end event index or None], ...]
        for name in scn.get('logs', []):
            logs[name] = make_log(scn, ctr, name)
            setattr(child, name, logs[name])
            periods[name] = [[logs[name], 0, None]]
        st = child.string_type
        # reference encoder state spans the whole history (stateful codecs)
        refenc = codecs.getincrementalencoder(enc)(scn.get('errors', 'strict')) if enc else None
        expected = bytearray()      # what the peer must receive
        sendlog = []                # what logfile_send must receive, in order
        events = []                 # merged transcript for `logfile`: ('s'|'r', text)
        out = []
        closed_stdin = False
        ended = False

        def enc_native(x):
            """x: value handed to send(); returns (logged_value, bytes_on_wire)."""
            if enc is None:
                bx = x if isinstance(x, bytes) else x.encode('utf-8')
                return bx, bx
            return x, refenc.encode(x, final=False)

        def V(clause, msg, **detail):
            detail.update(transport=tr, enc=enc)
            out.append(Violation(clause, msg, None, detail))

        def wire_bytes():
            """Kernel truth: every byte the code under test has written towards the peer so far."""
            if tr == 'pty':
                return bytes(r.pty.in_log)
            if tr == 'popen':
                return bytes(r.popen_inpipe.log)
            return bytes(inlog.log)

        def wire_len():
            return len(wire_bytes())

        aio = {'loop': None, 'await': False}
        if any(op['op'] == 'adrain' for op in scn['ops']):
            if tr not in ('pty', 'fd'):
                raise HarnessError('awaited reads are generated for pty and fd transports only')
            from . import aioloop
            aioloop.install()
            aio['loop'] = aioloop.SimLoop()
            aio['loop'].set_exception_handler(lambda lp, ctx: None)

            def delivered(s_):
                # the asyncio transport's deliveries do not pass through read_nonblocking: record them here
                if aio['await'] and not getattr(child, '_in_rnb', 0):
                    child.chunks.append(s_)
            aio['tap'] = delivered
            harness.tap_reads(child, delivered)

        async def adrain(to):
            try:
                await child.expect([TIMEOUT], timeout=to, async_=True)
            except EOF:
                return 'eof'

        for kx, op in enumerate(scn['ops']):
            kind = op['op']
            w.begin_op(kx)
            w.note('op', (kx, kind))
            c0 = len(child.chunks)
            try:
                if kind == 'gap':
                    w.sleep(op['dt'])
                elif kind == 'setlog':
                    if op.get('name') not in ('logfile', 'logfile_read', 'logfile_send') or op.get('to') not in ('new', 'none'):
                        raise HarnessError('bad setlog op')
                    name = op['name']
                    if periods.get(name) and periods[name][-1][2] is None:
                        periods[name][-1][2] = len(events)
                    tap = aio.get('tap') if name == 'logfile_read' else None
                    if op['to'] == 'new':
                        lg = make_log(scn, ctr, name)
                        setattr(child, name, harness.TapLog(lg, tap) if tap else lg)
                        periods.setdefault(name, []).append([lg, len(events), None])
                    else:
                        setattr(child, name, harness.TapLog(None, tap) if tap else None)
                    w.probe('log_file_switched_between_calls')
                elif kind == 'setattr':
                    if op.get('k') == 'linesep':
                        child.linesep = r.sconv(op['v'], None)
                    elif op.get('k') == 'delaybeforesend':
                        child.delaybeforesend = op['v']
                    else:
                        raise HarnessError('bad setattr op')
                    w.probe('attribute_changed_between_calls')
                elif kind == 'adrain':
                    aio['await'] = True
                    try:
                        if aio['loop'].run_until_complete(adrain(op.get('to', 0.001))) == 'eof':
                            ended = True
                    finally:
                        aio['await'] = False
                    w.probe('awaited_read_in_send_log_history')
                elif kind == 'drain':
                    try:
                        child.expect(TIMEOUT if True else EOF, timeout=op.get('to', 0))
                    except EOF:
                        pass
                elif kind in ('send', 'write', 'sendline'):
                    if not op.get('nodata') and 'd' not in op:
                        raise HarnessError('send op without data')
                    x = st() if op.get('nodata') else r.sconv(op['d'], op.get('as'))
                    enc_saved = refenc.getstate() if refenc is not None else None
                    lv, bx = enc_native(x)
                    if kind == 'sendline':
                        lsep = child.linesep
                        l2, b2 = enc_native(lsep)
                        lv, bx = lv + l2, bx + b2
                    # asked to send: belongs in the send log whatever becomes of the write
                    sendlog.append(lv)
                    events.append(('s', lv))
                    l0 = wire_len()
                    failed = None
                    cur_logs = [periods[nm_][-1][0] for nm_ in ('logfile', 'logfile_send')
                                if periods.get(nm_) and periods[nm_][-1][2] is None]
                    nlog0 = [len(lg_.writes()) for lg_ in cur_logs]
                    try:
                        w.intr_armed = True
                        try:
                            ret = child.sendline() if op.get('nodata') else getattr(child, kind)(x)
                        finally:
                            w.intr_armed = False
                    except SimInterrupt:
                        # abandoned from outside in its pause before sending: nothing of it may have reached the peer, and
                        # the calls that follow must come out as if this one had never been made (encoder state included)
                        w.probe('send_abandoned_from_outside')
                        delta = wire_bytes()[l0:]
                        if delta:
                            V('C08.bytes', '%s was abandoned in its pause before sending, yet %d bytes reached the peer' % (kind, len(delta)),
                              op=kx, got=delta[:80])
                        if refenc is not None:
                            refenc.setstate(enc_saved)
                        was_logged = any(len(lg_.writes()) > n0_ for lg_, n0_ in zip(cur_logs, nlog0))
                        if not was_logged:
                            sendlog.pop()
                            events.pop()
                        continue
                    except (OSError, _socket.timeout) as e:
                        if not (scn.get('send_fail') and isinstance(e, (_socket.timeout, TimeoutError))):
                            expected += bx
                            raise
                        failed = e
                        w.probe('sendall_gave_up_midway')
                        w.fault('sendall_timeout_midway')
                    delta = wire_bytes()[l0:]
                    if failed is not None or shorts:
                        # fault configurations: the peer holds a prefix of what this call was asked to send, never anything else
                        expected += delta
                        if bx[:len(delta)] != delta:
                            V('C08.bytes', '%s under %s: the peer received bytes that are not a prefix of the encoded argument'
                              % (kind, 'a failing sendall' if failed is not None else 'a short write'), op=kx,
                              got=delta[:80], want=bx[:80])
                        elif failed is None and kind in ('send', 'sendline') and ret != len(delta):
                            V('C08.return', '%s returned %r but %d bytes reached the peer' % (kind, ret, len(delta)), op=kx)
                        if failed is None and len(delta) < len(bx):
                            w.probe('short_write_truncated_a_send')
                        if failed is not None:
                            ended = True
                    else:
                        expected += bx
                        if kind in ('send', 'sendline') and ret != len(bx):
                            V('C08.return', '%s returned %r, %d bytes were to be written' % (kind, ret, len(bx)), op=kx)
                    if kind == 'write' and failed is None and ret is not None:
                        V('C08.return', 'write returned %r' % (ret,), op=kx)
                elif kind == 'writelines':
                    xs = [r.sconv(x, op.get('as')) for x in op['d']]
                    # any iterable of strings is accepted: a list, a tuple, or something that can be walked only once
                    how_ = op.get('seq', 'list')
                    child.writelines(xs if how_ == 'list' else tuple(xs) if how_ == 'tuple' else iter(xs) if how_ == 'iter'
                                     else (x_ for x_ in xs))
                    for x in xs:
                        lv, bx = enc_native(x)
                        expected += bx
                        sendlog.append(lv)
                        events.append(('s', lv))
                elif kind == 'sendcontrol':
                    ret = child.sendcontrol(op['c'])
                    bx = control_byte(op['c'])
                    expected += bx
                    lv = bx if enc is None else bx.decode(enc, 'replace')
                    if bx:
                        sendlog.append(lv)
                        events.append(('s', lv))
                    if ret != len(bx):
                        V('C08.return', 'sendcontrol(%r) returned %r' % (op['c'], ret), op=kx)
                elif kind in ('sendeof', 'sendintr'):
                    getattr(child, kind)()
                    bx = b'\x04' if kind == 'sendeof' else b'\x03'
                    expected += bx
                    lv = bx if enc is None else bx.decode(enc, 'replace')
                    sendlog.append(lv)
                    events.append(('s', lv))
            except SimHang as e:
                V('C08.hang', '%s blocked for ever: %s' % (kind, e), op=kx)
                break
            except HarnessError:
                raise
            except Exception as e:
                V('C08.exception', '%s raised %s: %s' % (kind, type(e).__name__, e), op=kx, site=harness._tb_site(e))
                out[-1].site = harness._tb_site(e)
                break
            for c in child.chunks[c0:]:
                if len(c):
                    events.append(('r', c))
            if ended:
                break       # asyncio closed the object at end of stream
        if aio['loop'] is not None:
            aio['loop'].detach_all()
            try:
                aio['loop'].close()
            except Exception:
                pass
        # let the peer finish reading what is in flight
        try:
            w.sleep(200000)
        except SimHang:
            pass
        got = b''.join(received)
        wire = wire_bytes()
        if not any(v.clause in ('C08.hang', 'C08.exception') for v in out):
            if wire != bytes(expected):
                V('C08.bytes', 'bytes written to the peer differ from the encoded arguments in call order',
                  got=wire, want=bytes(expected))
            elif got != bytes(expected) and not (scn.get('send_fail') and bytes(expected).startswith(got)):
                V('C08.bytes', 'bytes the peer read differ from what was sent', got=got, want=bytes(expected))
            # ---- C11
            want_read = [c for c in child.chunks if len(c)]
            # kernel truth: the text logged as read is the decoding of the bytes taken from the descriptor (for the
            # piped subprocess the reader thread may have taken more than the caller has been handed: prefix)
            if tr == 'pty':
                taken = bytes(r.pty.out_log[:len(r.pty.out_log) - len(r.pty.out)])
            elif tr in ('fd', 'sock'):
                rx = r.child_end.rx
                taken = bytes(rx.log[:len(rx.log) - len(rx.buf)])
            else:
                pp = r.popen_outpipe
                taken = bytes(pp.log[:len(pp.log) - len(pp.buf)])
            try:
                truth = taken if enc is None else codecs.getincrementaldecoder(enc)(scn.get('errors', 'strict')).decode(taken, False)
            except UnicodeError:
                truth = None
            if truth is not None and aio['loop'] is not None and logs and st().join(want_read) != truth and \
                    all(len(v) == 1 and v[0][2] is None for v in periods.values()):
                # in a history with awaited reads the chunk list is what reached _log(..., 'read'): anything the protocol
                # took from the descriptor without logging it shows up here, whichever log file is set
                V('C11.read_truth', 'text logged as read is not the decoding of the bytes read from the transport',
                  got=st().join(want_read)[-60:], want=truth[-60:], awaited=True)
            elif truth is not None and 'logfile_read' in logs and len(periods.get('logfile_read', [])) == 1 and \
                    periods['logfile_read'][0][2] is None:
                ws = logs['logfile_read'].writes()
                if all(type(x) is st for x in ws):
                    text = st().join(ws)
                    if (not truth.startswith(text)) if tr == 'popen' else (text != truth):
                        V('C11.read_truth', 'logfile_read is not the decoding of the bytes read from the transport',
                          got=text[-60:], want=truth[-60:], awaited=aio['loop'] is not None)
            for name, plist_ in sorted(periods.items()):
              for lg, ev_a, ev_b in plist_:
                ws = [x for x in lg.writes()]
                bad = [type(x).__name__ for x in ws if type(x) is not st]
                if bad:
                    V('C11.type', '%s received %s in %s mode' % (name, sorted(set(bad)), st.__name__), log=name)
                    continue
                text = st().join(ws)
                span = events[ev_a:ev_b]
                part = len(plist_) > 1 or ev_a != 0 or ev_b is not None
                if name == 'logfile_read':
                    want_t = st().join(e[1] for e in span if e[0] == 'r')
                    if text != want_t:
                        V('C11.read_log', 'logfile_read differs from the text delivered to matching%s' % (' while it was attached' if part else ''),
                          got=text, want=want_t)
                elif name == 'logfile_send':
                    want_t = st().join(e[1] for e in span if e[0] == 's')
                    if text != want_t:
                        V('C11.send_log', 'logfile_send differs from what the send family was asked to send%s' % (' while it was attached' if part else ''),
                          got=text, want=want_t)
                else:
                    want_t = st().join(e[1] for e in span)
                    if text != want_t:
                        V('C11.logfile', 'logfile differs from reads and sends merged in operation order%s' % (' while it was attached' if part else ''),
                          got=text, want=want_t)
                # each write flushed before the next write
                pend = False
                for e in lg.events:
                    if e[0] == 'w':
                        if pend:
                            V('C11.flush', '%s: a write was not flushed before the next write' % name, log=name)
                            break
                        pend = True
                    else:
                        pend = False
                else:
                    if pend:
                        V('C11.flush', '%s: last write never flushed' % name, log=name)
        info = collect_info(r)
        info['counters'] = {'tr:%s' % tr: 1, 'enc:%s' % enc: 1, 'sent_bytes': len(expected),
                            'read_chunks': len([c for c in child.chunks if len(c)])}
        if len(expected) > scn.get('in_cap', 4096):
            r.w.probe('payload_larger_than_input_queue')
        info['probes'] = dict(r.w.probes)
        if prop is not None:
            out = [v for v in out if v.clause.startswith(prop)]
        return out, info
    return harness.run_with(sc, body)
