"""C18 family: the ANSI terminal emulator fed through the simulated transport
(installed as logfile_read) under torn delivery, compared with a twin fed the
whole stream at once."""
import os
import re
import tempfile
import atexit
import shutil

from pexpect import ANSI

from . import harness
from .engine import Violation, gen_costs, collect_info
from .harness import EOF, TIMEOUT
from .world import SimHang, HarnessError

_tmp = [None]


def _scratch_cwd(blocked=False):
    """Unknown sequences make the emulator append to ./log: keep that out of /verif."""
    if _tmp[0] is None or _tmp[0][1] != os.getpid():
        d = tempfile.mkdtemp(prefix='simpex_c18_')
        _tmp[0] = (d, os.getpid())
        atexit.register(shutil.rmtree, d, True)
        try:
            # forked pool workers leave through os._exit(): atexit does not run there, multiprocessing's finalizers do
            from multiprocessing import util as _mpu
            _mpu.Finalize(None, shutil.rmtree, args=(d, True), exitpriority=0)
        except Exception:
            pass
    d = _tmp[0][0]
    if blocked:
        # the same, with ./log not writable (a directory of that name: the one 'disk fault' the terminal can meet --
        # its note about an unknown sequence cannot be written)
        d = os.path.join(d, 'blocked')
        os.makedirs(os.path.join(d, 'log'), exist_ok=True)
    os.chdir(d)


def gen_param(rng, size):
    return rng.choice([0, 1, 1, 2, max(1, size // 2), size, size + 1, 99999, 0])


def gen_tokens(rng, rows, cols, n, uni, surr=False):
    toks = []
    for _ in range(n):
        r = rng.random()
        if r < 0.3:
            k = rng.choice([1, 1, 2, 5, cols, cols + 1])
            al = u'abcXYZ 09~' + (u'\xe9€' if uni else u'')
            toks.append(u''.join(rng.choice(al) for _ in range(k)))
        elif r < 0.42:
            toks.append(rng.choice([u'\r', u'\n', u'\r\n', u'\x08', u'\t', u'\x07', u'\x00', u'\x18', u'\x1a', u'\x7f']))
        elif r < 0.9:
            kind = rng.choice(['A', 'B', 'C', 'D', 'H', 'f', 'J', 'K', 'r', 'r0', 'm', 'mode', 'l', 'esc', 'q', 'H0', 'J0'])
            if kind in 'ABCD':
                toks.append(u'\x1b[%d%s' % (gen_param(rng, rows if kind in 'AB' else cols), kind)
                            if rng.random() < 0.7 else u'\x1b[%s' % kind)
            elif kind in 'Hf':
                toks.append(u'\x1b[%d;%d%s' % (gen_param(rng, rows), gen_param(rng, cols), kind))
            elif kind == 'H0':
                toks.append(u'\x1b[H')
            elif kind == 'J':
                toks.append(u'\x1b[%dJ' % rng.choice([0, 1, 2, 3, 99999]))
            elif kind == 'J0':
                toks.append(rng.choice([u'\x1b[J', u'\x1b[K']))
            elif kind == 'K':
                toks.append(u'\x1b[%dK' % rng.choice([0, 1, 2, 3, 99999]))
            elif kind == 'r':
                toks.append(u'\x1b[%d;%dr' % (gen_param(rng, rows), gen_param(rng, rows)))
            elif kind == 'r0':
                toks.append(u'\x1b[r')
            elif kind == 'm':
                toks.append(rng.choice([u'\x1b[m', u'\x1b[1m', u'\x1b[0;31m', u'\x1b[1;2;3m', u'\x1b[1;2;3;4;5;99999m']))
            elif kind == 'q':
                toks.append(rng.choice([u'\x1b[1q', u'\x1b[1;2q', u'\x1b[0;1;2q']))
            elif kind == 'mode':
                toks.append(u'\x1b[?%d%s' % (rng.choice([1, 7, 25, 47, 99999]), rng.choice(u'hl')))
            elif kind == 'l':
                toks.append(u'\x1b[%dl' % rng.choice([4, 0, 20]))
            else:
                toks.append(rng.choice([u'\x1b7', u'\x1b8', u'\x1bM', u'\x1b>', u'\x1b<', u'\x1b=', u'\x1b(A', u'\x1b)0',
                                        u'\x1b#8', u'\x1b(B']))
        elif rng.random() < 0.06:
            # a parameter of thousands of digits (a corrupted or hostile stream): far beyond what int() converts by default
            nd = rng.choice([4299, 4300, 4301, 5000, 9000])
            digits = rng.choice(u'123456789') + u''.join(rng.choice(u'0123456789') for _ in range(nd - 1))
            if rng.random() < 0.3:
                digits = u'0' * rng.choice([1, 5000]) + digits
            form = rng.choice([u'%sA', u'%sB', u'%sC', u'%sD', u'%s;1H', u'1;%sH', u'%s;%sr', u'%sJ', u'%sK', u'1;2;%sm', u'?%sh',
                               u'%sl', u'%sm', u'1;%sr'])
            toks.append(u'\x1b[' + form.replace(u'%s', digits))
        elif surr and rng.random() < 0.3:
            # a str may hold a lone surrogate (os.fsdecode of a badly encoded file name, surrogateescape streams): as the
            # unexpected character of an unknown sequence it is still just a character
            sg = rng.choice(u'\udc80\udcff\ud800')
            toks.append(rng.choice([u'\x1b' + sg, u'\x1b[' + sg, u'\x1b[1;' + sg, u'\x1b[1;2' + sg, u'\x1b[?' + sg, u'\x1b(' + sg]))
        elif uni and rng.random() < 0.25:
            # parameters written with decimal digits that are not ASCII (Arabic-Indic, fullwidth, Devanagari): for the
            # terminal they are not digits at all, so the sequence ends at the first of them and the rest is printed
            dg = rng.choice(u'\u0663\uff13\u096b\u0660')
            pre = rng.choice([u'', u'1;', u'0;31;', u'?'])
            toks.append(u'\x1b[' + pre + dg)
            toks.append(rng.choice([u'm', u';1m', u'H', dg + u'm', u'A']))
        elif rng.random() < 0.5:
            # a control sequence cut short by an unusual final byte (CAN and SUB abort sequences on a VT100)
            pre = rng.choice([u'', u'5', u'5;', u'1;2', u'1;2;', u'7;8;9', u'?', u'?25', u'0', u'99999;'])
            fin = rng.choice([u'\x18', u'\x1a', u'\x00', u'\x7f', u'\n', u'\r', u'Z', u'~', u'!', u' ', u'\x1b', u'\x08', u'@'])
            toks.append(u'\x1b[' + pre + fin)
        else:
            toks.append(rng.choice([u'\x1bz', u'\x1b[5n', u'\x1b[;', u'\x1b[1;z', u'\x1b[1;2z', u'\x1b[1;2;z', u'\x1b[1;2;3z',
                                    u'\x1b[?z', u'\x1b[?1z', u'\x1b\x1b', u'\x1b[\x1b', u'\x1b(z', u'\x1b[1\r']))
    return toks


def generate(rng):
    scn = {'family': 'ansi'}
    scn['transport'] = rng.choice(['pty', 'pty', 'fd', 'direct', 'direct'])
    scn['costs'] = gen_costs(rng)
    if rng.random() < 0.5:
        rows, cols = rng.randint(1, 4), rng.randint(1, 5)
    else:
        rows, cols = rng.choice([(24, 80), (5, 10), (3, 40)])
    scn['rows'], scn['cols'] = rows, cols
    uni = rng.random() < 0.4
    scn['mode'] = rng.choice(['bytes', 'unicode']) if scn['transport'] != 'direct' else rng.choice(['bytes', 'str'])
    scn['tenc'] = 'utf-8' if uni else rng.choice(['latin-1', 'utf-8'])
    n = rng.choice([1, 2, 4, 8, 20, 60])
    surr = scn['transport'] == 'direct' and scn['mode'] == 'str' and rng.random() < 0.3
    toks = gen_tokens(rng, rows, cols, n, uni, surr)
    if rng.random() < 0.15 and toks:
        # truncated final sequence (the child died mid-sequence)
        t = toks[-1]
        if t.startswith(u'\x1b') and len(t) > 1:
            toks[-1] = t[:rng.randint(1, len(t) - 1)]
            scn['truncated'] = True
    scn['tokens'] = toks
    if rng.random() < 0.1:
        scn['log_blocked'] = True
    data = u''.join(toks).encode(scn['tenc']) if scn['mode'] != 'str' else u''.join(toks)
    k = rng.choice([0, 1, 2, 3, 6])
    scn['cuts'] = sorted(set(rng.randint(1, max(1, len(data) - 1)) for _ in range(k))) if len(data) > 1 else []
    scn['how'] = rng.choice(['split_write', 'torn_read', 'maxread'])
    if scn['transport'] == 'direct' and rng.random() < 0.25:
        # the application feeds the terminal itself, one byte (or one character) at a time, through process()
        scn['how'] = 'process'
    elif scn['transport'] == 'direct' and rng.random() < 0.12:
        # ... or through write_ch(), the entry point for one character of plain text (no escape sequences: in its ground
        # state the parser hands every character but ESC to write_ch itself, so for such text the two are the same thing)
        scn['how'] = 'write_ch'
        scn['tokens'] = [t for t in scn['tokens'] if u'\x1b' not in t] or [u'ab\xe9' if scn['tenc'] == 'utf-8' or scn['mode'] == 'str' else u'ab']
        scn.pop('truncated', None)
        scn['cuts'] = []
    scn['maxread'] = rng.choice([1, 2, 3, 7]) if scn['how'] == 'maxread' else 2000
    if rng.random() < 0.004:
        # one very large write (a whole capture file handed over at once) next to small ones: sizes beyond any internal
        # block size, cut inside a multi-byte character at either end of the large piece
        unit = rng.choice([u'Preis: 5 \u20ac netto\r\n', u'caf\xe9 \U0001f600 ok\r\n'])
        ub = unit.encode('utf-8')
        rep = 66000 // len(ub) + rng.randint(2, 40)
        first = next(i for i, ch in enumerate(ub) if ch >= 0x80)
        k = rng.choice([0, rep - 1])
        scn.update({'transport': 'direct', 'mode': 'bytes', 'tenc': 'utf-8', 'rows': 4, 'cols': 24, 'tokens': [unit], 'rep': rep,
                    'cuts': [k * len(ub) + first + 1], 'how': 'split_write', 'maxread': 2000})
        scn.pop('truncated', None)
    return scn


UNKNOWN_FORMS = [u'\x1bz', u'\x1b[5n', u'\x1b[;', u'\x1b[1;z', u'\x1b[1;2z', u'\x1b[1;2;z', u'\x1b[1;2;3z',
                 u'\x1b[?z', u'\x1b[?1z', u'\x1b\x1b', u'\x1b[\x1b', u'\x1b(z', u'\x1b[1\r']
# any CSI prefix followed by ONE arbitrary final character completes (known handler or default transition to ground state)
_CSI_ANY = re.compile(u'^\x1b\\[\\??(?:\\d+(?:;\\d+)*)?;?[^0-9;]$', re.DOTALL | re.ASCII)
_FORMS = re.compile(u'^\x1b(?:\\[\\d*[ABCDJKHmqr]|\\[\\d+;\\d+[Hfrmq]|\\[\\d+(?:;\\d+)+[mq]|\\[\\?\\d+[hl]|\\[\\d+l|[78M><=]|[()][AB012]|#8)$', re.ASCII)


_SURR = re.compile(u'^\x1b[(]?[\ud800-\udfff]$')


def valid_token(tk):
    """Tokens are complete units by construction; a shrunk scenario must keep them so."""
    if u'\x1b' not in tk:
        return True
    return tk in UNKNOWN_FORMS or bool(_FORMS.match(tk)) or bool(_CSI_ANY.match(tk)) or bool(_SURR.match(tk))


def snapshot(t):
    return {'screen': str(t), 'cur': (t.cur_r, t.cur_c), 'saved': (t.cur_saved_r, t.cur_saved_c),
            'region': (t.scroll_row_start, t.scroll_row_end), 'state': t.state.current_state,
            'mem': len(t.state.memory), 'rows': len(t.w), 'shape': [len(r) for r in t.w]}


def check_shape(t, rows, cols):
    if len(t.w) != rows:
        return 'grid has %d rows, not %d' % (len(t.w), rows)
    for i, row in enumerate(t.w):
        if len(row) != cols:
            return 'row %d has %d cells, not %d' % (i + 1, len(row), cols)
        for ch in row:
            if not isinstance(ch, str) or len(ch) != 1:
                return 'cell holds %r' % (ch,)
    if not (1 <= t.cur_r <= rows and 1 <= t.cur_c <= cols):
        return 'cursor at (%d,%d) outside %dx%d' % (t.cur_r, t.cur_c, rows, cols)
    return None


def run(scn):
    _scratch_cwd(bool(scn.get('log_blocked')))
    rows, cols = scn['rows'], scn['cols']
    if rows < 1 or cols < 1:
        raise HarnessError('degenerate screen size')
    toks = scn['tokens'] * int(scn.get('rep', 1))
    if scn.get('rep', 1) > 1 and (len(scn['tokens']) > 4 or scn.get('transport') != 'direct'):
        raise HarnessError('repeated token lists are for short units fed directly')
    for i, tk in enumerate(toks):
        if not valid_token(tk) and not (scn.get('truncated') and i == len(toks) - 1):
            raise HarnessError('scenario token %r is not a complete unit' % (tk,))
    mode = scn.get('mode', 'bytes')
    tenc = scn.get('tenc', 'latin-1')
    text = u''.join(toks)
    if mode != 'str' and any(0xd800 <= ord(ch) <= 0xdfff for ch in text):
        raise HarnessError('a lone surrogate exists in a str only: it cannot come out of a byte stream')
    out = []
    det = {'rows': rows, 'cols': cols, 'mode': mode, 'tenc': tenc, 'cuts': scn.get('cuts'), 'how': scn.get('how'),
           'tokens': [t for t in toks][:40]}

    def V(clause, msg, **d):
        dd = dict(det)
        dd.update(d)
        out.append(Violation(clause, msg, None, dd))

    def mk():
        return ANSI.ANSI(rows, cols, encoding=tenc)
    # twin A: token by token, residue checked after every completed token
    A = mk()
    try:
        for i, tk in enumerate(toks):
            A.write(tk)
            e = check_shape(A, rows, cols)
            if e:
                V('C18.shape', 'after token %d %r: %s' % (i, tk, e), token=i)
                break
            complete = not (scn.get('truncated') and i == len(toks) - 1)
            if complete and (A.state.current_state != 'INIT' or len(A.state.memory) != 1):
                V('C18.residue', 'after completed token %d %r the parser is in %s with %d parameters left'
                  % (i, tk, A.state.current_state, len(A.state.memory) - 1), token=i)
                break
    except Exception as e:
        V('C18.raises', 'feeding token by token raised %s: %s' % (type(e).__name__, e), site=harness._tb_site(e))
    if out:
        return out, {'digest': None, 'counters': {'direct_fail': 1}}
    # twin B: all at once
    B = mk()
    try:
        B.write(text if mode in ('str', 'unicode') else text.encode(tenc))
    except Exception as e:
        V('C18.raises', 'feeding the whole input raised %s: %s' % (type(e).__name__, e))
        return out, {'digest': None}
    if snapshot(A) != snapshot(B):
        V('C18.chunking', 'token-by-token and all-at-once feeding disagree', a=snapshot(A), b=snapshot(B))
        return out, {'digest': None}
    data = text.encode(tenc) if mode != 'str' else text
    from .unicode_fam import pieces_of
    if scn['transport'] == 'direct':
        pcs = pieces_of(data, scn.get('cuts', []))
        if scn.get('how') in ('process', 'write_ch'):
            pcs = [data[i:i + 1] for i in range(len(data))]
        if scn.get('how') == 'write_ch' and u'\x1b' in text:
            raise HarnessError('write_ch is fed plain text only')
        C = mk()
        try:
            for p in pcs:
                if scn.get('how') == 'process':
                    C.process(p)
                elif scn.get('how') == 'write_ch':
                    C.write_ch(p)
                else:
                    C.write(p)
                e = check_shape(C, rows, cols)
                if e:
                    V('C18.shape', 'after a delivery: %s' % e)
                    break
        except Exception as e:
            V('C18.raises', 'feeding in pieces raised %s: %s' % (type(e).__name__, e))
        if not out and snapshot(C) != snapshot(B):
            V('C18.chunking', 'feeding in %d pieces gives a different terminal than feeding at once' % len(pcs),
              pieces=snapshot(C), whole=snapshot(B))
        import hashlib
        dg = hashlib.blake2b(repr((text, tuple(scn.get('cuts', [])), rows, cols, mode, tenc)).encode('utf-8'), digest_size=10).hexdigest()
        return out, {'digest': 'direct:%s' % dg, 'vt': 0, 'steps': len(pcs),
                     'counters': {'direct': 1}, 'nchunks': len(pcs)}
    # through the simulated transport
    sc = dict(scn)
    bdata = text.encode(tenc)
    pcs = pieces_of(bdata, scn.get('cuts', []))
    tr = scn['transport']
    end = {'op': 'exit', 'code': 0, 'dt': 300} if tr == 'pty' else {'op': 'close', 'dt': 300}
    how = scn.get('how', 'split_write')
    if how == 'split_write':
        sc['peer'] = [{'op': 'w', 'd': harness.l1(p), 'dt': 400} for p in pcs] + [end]
    elif how == 'torn_read':
        sc['peer'] = [{'op': 'w', 'd': harness.l1(bdata), 'dt': 5}, end]
        sc['tear'] = [len(p) for p in pcs[:-1]] + [0]
    else:
        sc['peer'] = [{'op': 'w', 'd': harness.l1(bdata), 'dt': 5}, end]
    sc['timeout'] = 100000        # virtual seconds are free; a 40 KB token read one byte at a time takes more than a few of them
    sc['enc'] = tenc if mode == 'unicode' else None

    def body(r):
        child = r.make_child()
        C = mk()
        deliveries = [0]
        errs = []
        orig = C.write

        class Tap(object):
            def write(self, s):
                deliveries[0] += 1
                orig(s)
                e = check_shape(C, rows, cols)
                if e and not errs:
                    errs.append(e)

            def flush(self):
                C.flush()
        child.logfile_read = Tap()
        try:
            child.expect(EOF)
        except (EOF, TIMEOUT, SimHang) as e:
            V('C18.transport', 'drain ended with %s' % type(e).__name__)
        except HarnessError:
            raise
        except Exception as e:
            V('C18.raises', 'terminal raised %s while fed through the transport: %s' % (type(e).__name__, e), site=harness._tb_site(e))
        if errs and not out:
            V('C18.shape', 'after a delivery: %s' % errs[0])
        if not out and snapshot(C) != snapshot(B):
            V('C18.chunking', 'terminal fed through the transport in %d deliveries differs from the one fed at once' % deliveries[0],
              pieces=snapshot(C), whole=snapshot(B))
        info = collect_info(r)
        info['counters'] = {'deliveries': deliveries[0], 'tokens': len(toks)}
        return out, info
    return harness.run_with(sc, body)
