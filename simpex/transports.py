"""Thin harness subclasses of pexpect's real spawn classes.  They add one thing:
read_nonblocking records what was returned (the chunk sequence the matching
engine saw).  Children come from the world's child_setup / popen_setup.
"""
import weakref

import pexpect
import pexpect.fdpexpect
import pexpect.popen_spawn
import pexpect.socket_pexpect
import pexpect.pxssh
import ptyprocess.ptyprocess as pp

from . import shim
from .kernel import PtyMaster, PtySlave, ECHO


class SimFile(object):
    """Stand-in for ptyprocess' BufferedRWPair over the master descriptor."""

    def __init__(self, fd):
        self.fd = fd
        self.closed = False

    def write(self, b):
        if self.closed:
            raise ValueError('write to closed file')
        shim.os_write(self.fd, b)
        return len(b)

    def flush(self):
        if self.closed:
            raise ValueError('flush of closed file')

    def read1(self, n=-1):
        return shim.os_read(self.fd, n if n > 0 else 8192)

    def readline(self):
        out = b''
        while not out.endswith(b'\n'):
            c = shim.os_read(self.fd, 1)
            if not c:
                break
            out += c
        return out

    def close(self):
        if not self.closed:
            self.closed = True
            shim.os_close(self.fd)


class SimPtyProcess(pp.PtyProcess):
    """Real PtyProcess lifecycle logic over a sim descriptor: only __init__
    differs (no io.open on a real fd)."""

    def __init__(self, pid, fd):
        self.pid = pid
        self.fd = fd
        self.fileobj = SimFile(fd)
        self.terminated = False
        self.closed = False
        self.exitstatus = None
        self.signalstatus = None
        self.status = None
        self.flag_eof = False
        self.delayafterclose = 0.1
        self.delayafterterminate = 0.1
        shim.W.ptyprocs.append(weakref.ref(self))


def default_child_setup(world, actor_factory, pty_kw=None, proc_kw=None):
    """Return a child_setup callable creating a pty child whose behaviour is
    actor_factory(proc, slave, pty) -> Actor (already constructed, not started)."""
    K = world.kernel

    def setup(args, kwargs):
        pty = K.pty(**(pty_kw or {}))
        master = PtyMaster(pty)
        fd = K.alloc_fd(master)
        proc = K.new_proc('child')
        for k_, v_ in (proc_kw or {}).items():
            setattr(proc, k_, v_)
        slave = PtySlave(pty)
        proc.handles.append(slave)
        proc.tty = pty
        pty.fg = proc
        if not kwargs.get('echo', True):
            pty.attr[3] &= ~ECHO
        dims = kwargs.get('dimensions')
        if dims is not None:
            pty.winsize = tuple(dims)
        world.children.append((proc, pty, slave))
        actor = actor_factory(proc, slave, pty)
        if actor is not None:
            actor.start(0)
        return proc.pid, fd
    return setup


class _Rec(object):
    """Mixin: record chunks returned by read_nonblocking."""

    def _rec_init(self):
        self.chunks = []       # every chunk returned, in order
        self.rn_calls = []     # (size, timeout, outcome)

    def read_nonblocking(self, size=1, timeout=-1):
        self._in_rnb = getattr(self, '_in_rnb', 0) + 1      # (lets a tap on logfile_read tell these reads from the asyncio transport's)
        try:
            s = super(_Rec, self).read_nonblocking(size, timeout)
        except BaseException as e:
            self.rn_calls.append((size, timeout, type(e).__name__))
            raise
        finally:
            self._in_rnb -= 1
        if not getattr(self, '_rec_via_log', False):
            self.chunks.append(s)
        self.rn_calls.append((size, timeout, len(s)))
        return s


class SimSpawn(_Rec, pexpect.spawn):
    def __init__(self, *a, **kw):
        self._rec_init()
        pexpect.spawn.__init__(self, *a, **kw)
        if shim.W is not None and shim.W.on_spawn is not None:
            shim.W.on_spawn(self)

    def _spawnpty(self, args, **kwargs):
        W = shim.W
        pid, fd = W.child_setup(args, kwargs)
        inst = SimPtyProcess(pid, fd)
        inst.argv = args
        return inst


class SimPxssh(_Rec, pexpect.pxssh.pxssh):
    def __init__(self, *a, **kw):
        self._rec_init()
        pexpect.pxssh.pxssh.__init__(self, *a, **kw)

    def _spawnpty(self, args, **kwargs):
        W = shim.W
        pid, fd = W.child_setup(args, kwargs)
        inst = SimPtyProcess(pid, fd)
        inst.argv = args
        return inst


class SimFdSpawn(_Rec, pexpect.fdpexpect.fdspawn):
    def __init__(self, *a, **kw):
        self._rec_init()
        pexpect.fdpexpect.fdspawn.__init__(self, *a, **kw)


class SimSocketSpawn(_Rec, pexpect.socket_pexpect.SocketSpawn):
    def __init__(self, *a, **kw):
        self._rec_init()
        pexpect.socket_pexpect.SocketSpawn.__init__(self, *a, **kw)


class SimPopenSpawn(_Rec, pexpect.popen_spawn.PopenSpawn):
    def __init__(self, *a, **kw):
        self._rec_init()
        pexpect.popen_spawn.PopenSpawn.__init__(self, *a, **kw)

    def read_nonblocking(self, size, timeout):
        return _Rec.read_nonblocking(self, size, timeout)
