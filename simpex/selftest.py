"""Self-tests: determinism of the simulator, sensitivity to seeded mutants."""
import json
import os
import random
import shutil
import subprocess
import sys
import tempfile
import time

VERIF = os.path.dirname(os.path.dirname(os.path.abspath(__file__)))
REPO = os.environ.get('VERIF_REPO', '/repo')


def main(what, args):
    if what == 'selftest-determinism':
        return determinism(args)
    if what == 'selftest-digests':
        return digests(args)
    if what == 'selftest-mutants':
        return mutants(args)
    print('unknown selftest', what)
    return 2


# ------------------------------------------------------------- determinism
def digests(args):
    """Print 'pid i digest nviol' for a range of seeds (used by determinism)."""
    from checks import registry
    from simpex import runner
    pids = (args.arg or ','.join(registry.ids())).split(',')
    n = args.runs or 200
    seed = int(os.environ.get('VERIF_SEED', '1'))
    for pid in pids:
        spec = registry.get(pid)
        for i in range(n):
            rng = random.Random('%s:%d:%d' % (pid, seed, i))
            scn = spec.generate(rng)
            viols, info, herr = runner.run_one(spec, scn)
            print(pid, i, runner.scn_digest(scn), info.get('digest'), len(viols), 'H' if herr else '-')
    return 0


def determinism(args):
    """Every seed twice in fresh interpreters with different PYTHONHASHSEED,
    plus in-pool (16 workers) vs serial comparison via trace digests."""
    from checks import registry
    pids = (args.arg or ','.join(registry.ids())).split(',')
    n = args.runs or 300
    bad = 0
    for pid in pids:
        outs = []
        for hs in ('0', '12345', 'random'):
            env = dict(os.environ)
            env['PYTHONHASHSEED'] = hs
            p = subprocess.run([os.path.join(VERIF, 'simcheck'), 'selftest-digests', pid, '--runs', str(n)],
                               capture_output=True, text=True, env=env, timeout=1800)
            outs.append(p.stdout)
            if p.returncode != 0:
                print(pid, 'digest run failed', p.stderr[-500:])
                bad += 1
        same = outs[0] == outs[1] == outs[2] and outs[0].count('\n') == n
        herr = outs[0].count(' H')
        print('%s: %d seeds x 3 fresh interpreters (PYTHONHASHSEED 0/12345/random): %s, harness errors %d'
              % (pid, n, 'identical' if same else 'DIFFERENT', herr))
        if not same:
            bad += 1
            a, b = outs[0].splitlines(), outs[2].splitlines()
            for x, y in zip(a, b):
                if x != y:
                    print('  first difference:', x, '|', y)
                    break
    return 1 if bad else 0


# ----------------------------------------------------------------- mutants
def load_mutants():
    with open(os.path.join(VERIF, 'mutants', 'catalogue.json')) as f:
        return json.load(f)['mutants']


def make_tree(mut, base):
    """Scratch copy of the pexpect package with one replacement applied."""
    d = tempfile.mkdtemp(prefix='simpex_mut_', dir='/tmp')
    shutil.copytree(os.path.join(base, 'pexpect'), os.path.join(d, 'pexpect'),
                    ignore=shutil.ignore_patterns('__pycache__'))
    for ed in mut['edits']:
        p = os.path.join(d, ed['file'])
        s = open(p).read()
        if s.count(ed['old']) != 1:
            shutil.rmtree(d)
            raise RuntimeError('mutant %s: anchor occurs %d times in %s' % (mut['id'], s.count(ed['old']), ed['file']))
        s = s.replace(ed['old'], ed['new'])
        open(p, 'w').write(s)
    return d


def mutants(args):
    want = set(args.arg.split(',')) if args.arg else None
    res = []
    detail = {}
    for mut in load_mutants():
        if want and mut['id'] not in want:
            continue
        try:
            d = make_tree(mut, REPO)
        except RuntimeError as e:
            print('SKIP', e)
            res.append((mut['id'], 'anchor'))
            continue
        caught_by = []
        t0 = time.time()
        try:
            for pid in mut['expect']:
                env = dict(os.environ)
                env['VERIF_REPO'] = d
                env['VERIF_EVIDENCE_DIR'] = os.path.join(d, 'evidence')
                env['VERIF_REPLAY_DIR'] = os.path.join(d, 'replays')
                cmd = [os.path.join(VERIF, 'simcheck'), pid, '--tier', 'quick']
                if args.runs:
                    cmd += ['--runs', str(args.runs)]
                p = subprocess.run(cmd, capture_output=True, text=True, env=env, timeout=3600)
                clauses = [l.strip() for l in p.stdout.splitlines() if l.strip().startswith('clause=')]
                if p.returncode == 1:
                    caught_by.append((pid, clauses[:2]))
                elif p.returncode != 0:
                    caught_by.append((pid, ['exit %d: %s' % (p.returncode, p.stdout[-300:])]))
        finally:
            shutil.rmtree(d, ignore_errors=True)
        ok = any(c for c in caught_by if c[1] and not c[1][0].startswith('exit'))
        print('%s %-7s %s (%.0fs) %s' % ('CAUGHT' if ok else 'MISSED', mut['id'], mut['what'], time.time() - t0,
                                        caught_by if ok else ''))
        res.append((mut['id'], ok))
        detail[mut['id']] = {'what': mut['what'], 'files': sorted(set(e['file'] for e in mut['edits'])), 'caught': bool(ok),
                             'clauses': sorted(set(c.split()[0].replace('clause=', '') for _, cl in caught_by for c in cl if c.startswith('clause=')))}
    if not want:
        with open(os.path.join(VERIF, 'mutants', 'last_run.json'), 'w') as f:
            json.dump(detail, f, indent=1, sort_keys=True)
    # a mutant whose anchor text no longer occurs in the tree (the code was repaired or restructured) is a hole in the
    # self-test, not a pass: it counts as missed until it is re-anchored
    missed = [m for m, ok in res if ok is False or ok == 'anchor']
    print('mutants: %d caught, %d missed %s' % (len([1 for m, ok in res if ok is True]), len(missed), missed))
    return 1 if missed else 0
