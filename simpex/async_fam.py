"""C14 family: asyncio parity.  A coroutine under the virtual-time loop issues
a history of awaited and blocking expect calls on one object; every call is
held to the same naive model as the blocking path (C01-C04 clauses), on the
read sequence the asyncio transport actually delivered."""
import asyncio

from . import aioloop
from . import engine
from . import harness
from .engine import Violation
from .harness import EOF, TIMEOUT
from .world import SimHang, HarnessError

EPS_US = 500000


def generate(rng):
    scn = engine.generate(rng, 'engine')
    scn['family'] = 'async'
    scn['transport'] = rng.choice(['pty', 'pty', 'fd'])
    scn.pop('sched', None)
    scn.pop('delayafterread', None)
    scn['use_poll'] = rng.random() < 0.3
    scn.pop('many_fds', None)
    if scn['use_poll'] and rng.random() < 0.3:
        scn['many_fds'] = True
    if scn['transport'] == 'pty':
        scn['eof_flavour'] = rng.choice(['eio', 'eio', 'empty'])
    ops = []
    mixed = rng.random() < 0.5
    for op in scn['ops']:
        if op['op'] in ('read', 'readline', 'readlines', 'iter'):
            if op['op'] in ('readlines', 'iter') or op.get('n') == -1:
                continue
            ops.append(op)       # blocking helpers mixed in
            continue
        if op['op'] == 'expect':
            if op.get('api') == 'expect_loop':
                op['api'] = 'expect'
            op['async'] = (rng.random() < 0.6) if mixed else True
            if op['async']:
                for pp in op.get('pats', []):
                    pp.pop('ot', None)       # (awaited calls are recorded with the list the harness built, not the coerced one)
            if op.get('to', -1) is None and rng.random() < 0.5:
                op['to'] = 0.03
            if op['async'] and rng.random() < 0.15:
                # the caller abandons the call from outside (its own wait_for / task.cancel())
                op['cancel_after'] = rng.choice([0.0002, 0.001, 0.004, 0.02])
                if rng.random() < 0.5:
                    op['to'] = None
        if op['op'] == 'gap':
            op['async'] = rng.random() < 0.7
        ops.append(op)
    scn['ops'] = ops
    # deadline ties: put some data exactly at / next to a timer
    if rng.random() < 0.35:
        t_acc = 0
        for op in ops:
            if op['op'] == 'expect' and op.get('async') and isinstance(op.get('to'), float):
                for st in scn['peer']:
                    if st.get('op', 'w') == 'w' and 'at' not in st and rng.random() < 0.5:
                        st['dt'] = max(0, int(op['to'] * 1e6) + rng.choice([-30, -10, -3, -1, 0, 1, 3, 10]))
                        break
                break
    if rng.random() < 0.04:
        # a call answered long before its deadline, then a longer call that is still outstanding when the FIRST call's
        # deadline passes and whose text arrives after it: whatever the first call armed must be gone by then
        t1 = rng.choice([0.002, 0.01, 0.05])
        a, b = rng.choice([('ab', 'ca'), ('b', 'c'), ('abc', 'cba')])
        scn['peer'] = [{'op': 'w', 'd': 'c' * rng.randint(0, 2) + a, 'dt': int(t1 * 1e6 * rng.choice([0.05, 0.2]))},
                       {'op': 'w', 'd': 'a' * rng.randint(0, 2) + b, 'dt': int(t1 * 1e6 * rng.choice([1.2, 2.0, 3.5]))},
                       {'op': 'pause'}]
        scn['ops'] = [{'op': 'expect', 'api': rng.choice(['expect', 'expect_exact']), 'pats': [{'t': 'ex', 'p': a}], 'to': t1,
                       'sws': -1, 'async': True},
                      {'op': 'expect', 'api': rng.choice(['expect', 'expect_exact']), 'pats': [{'t': 'ex', 'p': b}], 'to': t1 * 6,
                       'sws': -1, 'async': rng.random() < 0.8}]
        for op in scn['ops']:
            if op['api'] == 'expect':
                op['pats'] = [{'t': 're', 'p': op['pats'][0]['p']}]
        scn.pop('tear', None)
        scn.pop('twin', None)
        scn['sws'] = None
    if rng.random() < 0.015:
        scn = {'family': 'async', 'profile': 'engine', 'transport': rng.choice(['fd', 'pty']), 'enc': 'utf-8', 'errors': 'strict',
               'costs': engine.gen_costs(rng), 'maxread': 2000, 'sws': None, 'timeout': 0.02, 'use_poll': False, 'bad_byte': True,
               'peer': [{'op': 'w', 'd': 'ab', 'dt': 5}, {'op': 'w', 'd': rng.choice(['\xff', 'z\xffc', '\xffc']), 'dt': rng.choice([50, 3000])},
                        {'op': 'w', 'd': 'c', 'dt': 400}, {'op': 'pause'}],
               'ops': [{'op': 'expect', 'api': rng.choice(['expect', 'expect_exact']), 'pats': [{'t': 'ex', 'p': 'c'}],
                        'to': rng.choice([0.02, 0.5, None]), 'sws': -1, 'async': True}], 'step_cap': 60000, 'vt_cap_s': 1000}
        if scn['ops'][0]['api'] == 'expect':
            scn['ops'][0]['pats'] = [{'t': 're', 'p': 'c'}]
        if scn['transport'] == 'pty':
            scn['eof_flavour'] = 'eio'
        return scn
    ops = scn['ops']
    aw_ = [i for i, o in enumerate(ops) if o['op'] == 'expect' and o.get('async')]
    if len(aw_) >= 2 and rng.random() < 0.05:
        scn['second_loop_at'] = rng.randint(aw_[0] + 1, aw_[-1])
        return scn
    if rng.random() < 0.12:
        # the application prepares awaitables up front (a list of steps) and awaits them later, other operations in between:
        # making the awaitable does nothing, the call happens when it is awaited
        aw = [i for i, o in enumerate(ops) if o['op'] == 'expect' and o.get('async') and i > 0 and 'cancel_after' not in o]
        prep = {}
        for i in aw:
            if rng.random() < 0.6:
                prep[str(i)] = rng.randrange(0, i)
        if prep:
            scn['prepare'] = prep
            # (timeout and search window are bound when the awaitable is made: no re-tuning in such histories)
            scn['ops'] = [o if o['op'] != 'setattr' else {'op': 'gap', 'dt': 1} for o in ops]
    return scn


def run(scn, clauses=None):
    aioloop.install()

    def body(r):
        w = r.w
        child = r.make_child()
        state = {'stop': None, 'sync': False}
        late = set()          # indices of chunks received after the awaited future was already done

        def delivered(s):
            # blocking calls record what read_nonblocking returned (one engine read may be
            # several os reads); the asyncio transport's deliveries are recorded here
            if not state['sync'] and not getattr(child, '_in_rnb', 0):
                apt = getattr(child, 'async_pw_transport', None)
                if apt and apt[0].fut.done():
                    late.add(len(child.chunks))
                child.chunks.append(s)
        readlog = None
        if 'logfile_read' in (scn.get('logs') or []):
            # C11 on awaited histories (deadline ties included): the read log against the bytes the kernel handed over
            from .sendlog import make_log
            readlog = make_log(scn, [0], 'logfile_read')
            child.logfile_read = readlog
        harness.tap_reads(child, delivered)
        r.late_chunks = late
        loop = aioloop.SimLoop()
        loop.set_exception_handler(lambda lp, ctx: None)

        prepared = {}
        readable0 = {}

        def readable_now():
            """Kernel truth: bytes the child's descriptor holds ready to be read right now (None: not known)."""
            try:
                if scn.get('transport') == 'pty' and r.pty is not None:
                    return len(r.pty.out)
                if scn.get('transport') == 'fd' and getattr(r, 'fd_pipe', None) is not None:
                    return len(r.fd_pipe.p.buf)
            except Exception:
                return None
            return None

        def make_awaitable(op):
            api = op.get('api', 'expect')
            to = op.get('to', -1)
            sws = op.get('sws', -1)
            exact = api == 'expect_exact'
            pl = r.build_plist(op['pats'], exact)
            if exact:
                coro = child.expect_exact(pl, timeout=to, searchwindowsize=sws, async_=True)
            elif api == 'expect_list':
                coro = child.expect_list(pl, timeout=to, searchwindowsize=sws, async_=True)
            else:
                coro = child.expect(pl, timeout=to, searchwindowsize=sws, async_=True)
            return coro, pl

        async def acall(k, op):
            api = op.get('api', 'expect')
            to = op.get('to', -1)
            sws = op.get('sws', -1)
            exact = api == 'expect_exact'
            if isinstance(to, (int, float)) and to < 0 and to != -1:
                # a negative timeout is outside what the statements define (asyncio gives up before the transport's reader is
                # even installed, which then reads on while nobody waits): what the object does afterwards is not judged
                state['cancelled_from_outside'] = True
            pre = prepared.pop(k, None)
            pl = pre[1] if pre is not None else r.build_plist(op['pats'], exact)
            c0, t0 = len(child.chunks), w.now
            readable0[t0] = readable_now()
            rec = {'k': k, 'op': 'aexpect', 't0': w.now}
            w.begin_op(k)
            w.note('op', (k, 'aexpect'))
            try:
                if pre is not None:
                    # the awaitable was made earlier (a list of steps prepared up front); nothing happens before it is awaited
                    coro = pre[0]
                    r.w.probe('awaitable_prepared_before_an_earlier_operation')
                elif exact:
                    coro = child.expect_exact(pl, timeout=to, searchwindowsize=sws, async_=True)
                elif api == 'expect_list':
                    coro = child.expect_list(pl, timeout=to, searchwindowsize=sws, async_=True)
                else:
                    coro = child.expect(pl, timeout=to, searchwindowsize=sws, async_=True)
                if op.get('cancel_after') is not None:
                    try:
                        res = await asyncio.wait_for(coro, op['cancel_after'])
                    except asyncio.TimeoutError:
                        # cancellation tie: if the future had already completed when the caller's own timer fired,
                        # asyncio drops the result; the engine did match (or see EOF), so judge it as that outcome
                        apt = getattr(child, 'async_pw_transport', None)
                        fut = apt[0].fut if apt else None
                        oc = ('cancel', None)
                        if fut is not None and fut.done() and not fut.cancelled():
                            oc = ('exc', fut.exception()) if fut.exception() is not None else ('ret', fut.result())
                            r.w.probe('cancellation_tie')
                        r.snap_call('exact' if exact else 'list', pl, to, sws, c0, t0, oc, True)
                        rec['out'] = 'cancel'
                        state['cancelled_from_outside'] = True
                        rec['t1'] = w.now
                        r.ops.append(rec)
                        r.w.probe('awaited_call_cancelled_from_outside')
                        return rec
                else:
                    res = await coro
                r.snap_call('exact' if exact else 'list', pl, to, sws, c0, t0, ('ret', res), True)
                rec['out'] = 'ret'
            except (EOF, TIMEOUT) as e:
                r.snap_call('exact' if exact else 'list', pl, to, sws, c0, t0, ('exc', e), True)
                rec['out'] = type(e).__name__
            except SimHang as e:
                r.snap_call('exact' if exact else 'list', pl, to, sws, c0, t0, ('exc', e), True)
                rec['out'] = 'HANG'
            except HarnessError:
                raise
            except Exception as e:
                r.snap_call('exact' if exact else 'list', pl, to, sws, c0, t0, ('exc', e), True)
                rec['out'] = 'EXC'
                rec['exc'] = e
            rec['t1'] = w.now
            r.ops.append(rec)
            return rec

        prep_plan = {}
        for kk_, jj_ in (scn.get('prepare') or {}).items():
            kk_, jj_ = int(kk_), int(jj_)
            if not (0 <= jj_ < kk_ < len(scn['ops'])) or scn['ops'][kk_].get('op') != 'expect' or not scn['ops'][kk_].get('async'):
                raise HarnessError('prepare: an awaited expect is prepared before an earlier operation')
            prep_plan.setdefault(jj_, []).append(kk_)

        async def driver(k_from=0, k_to=None):
            for k, op in list(enumerate(scn['ops']))[k_from:k_to]:
                state['k'] = k
                for kk in prep_plan.get(k, []):
                    if not child.closed:
                        prepared[kk] = make_awaitable(scn['ops'][kk])
                apt_ = getattr(child, 'async_pw_transport', None)
                if apt_ and not state.get('cancelled_from_outside'):
                    tr_ = apt_[1]
                    try:
                        if tr_.is_reading() and not tr_.is_closing():
                            # the last awaited call is over, yet its transport is still installed as a reader: output and
                            # the end of the stream are now taken behind the caller's back (asyncio closes the object at EOF)
                            state['read_idle'] = True
                            r.w.probe('transport_reading_while_no_call_is_outstanding')
                    except Exception:
                        pass
                if child.closed and not (op['op'] == 'expect' and op.get('async')) and \
                        not (state.get('read_idle') and not state.get('cancelled_from_outside')):
                    # asyncio closed the object at EOF: blocking calls are out of scope -- unless the transport had been
                    # left reading while no call was outstanding (then the blocking call below shows what that does)
                    continue
                if op['op'] == 'expect' and op.get('async'):
                    rec = await acall(k, op)
                elif op['op'] == 'gap' and op.get('async'):
                    w.begin_op(k)
                    await asyncio.sleep(op['dt'] / 1e6)
                    continue
                else:
                    state['sync'] = True
                    try:
                        rec = r.do_op(k, op)
                    finally:
                        state['sync'] = False
                if rec['out'] in ('HANG', 'EXC'):
                    state['halt'] = True
                    break
                last = r.calls[-1] if r.calls else None
                if last is not None and (last['after'] is EOF or (last['outcome'][0] == 'exc' and isinstance(last['outcome'][1], EOF))):
                    state['halt'] = True
                    break            # scope of the property ends at the first EOF
                if child.closed and False:
                    # the asyncio transport saw the end of the stream while no call was
                    # outstanding and closed the object (asyncio owns the pipe): blocking
                    # calls are over; an awaited call must still report EOF
                    nxt = None
                    for k2 in range(k + 1, len(scn['ops'])):
                        if scn['ops'][k2]['op'] == 'expect' and scn['ops'][k2].get('async'):
                            nxt = k2
                            break
                    if nxt is not None:
                        r.w.probe('eof_while_idle')
                        rec = await acall(nxt, scn['ops'][nxt])
                        last = r.calls[-1]
                        if not (last['after'] is EOF or (last['outcome'][0] == 'exc' and isinstance(last['outcome'][1], EOF))) \
                                and last['outcome'][0] != 'ret':
                            state['idle_eof_bad'] = engine._call_brief(last)
                    break
        cut = scn.get('second_loop_at')
        loop2 = None
        if cut is not None:
            # the application runs its steps under two event loops, one after the other (asyncio.run() twice)
            cut = int(cut)
            if scn.get('prepare') or not (0 < cut < len(scn['ops'])) or \
                    not any(o.get('op') == 'expect' and o.get('async') for o in scn['ops'][:cut]) or \
                    not any(o.get('op') == 'expect' and o.get('async') for o in scn['ops'][cut:]):
                raise HarnessError('second_loop_at: awaited calls on both sides, no prepared awaitables')
        try:
            if cut is None:
                loop.run_until_complete(driver())
            else:
                loop.run_until_complete(driver(0, cut))
                loop.close()                      # (what asyncio.run() does when its coroutine is done)
                if not state.get('halt') and not child.closed:
                    loop2 = aioloop.SimLoop()
                    loop2.set_exception_handler(lambda lp, ctx: None)
                    r.w.probe('second_event_loop_on_the_same_object')
                    state['loop2'] = True
                    loop2.run_until_complete(driver(cut, None))
        except SimHang as e:
            state['stop'] = e
        finally:
            for co_, _pl in prepared.values():
                co_.close()          # prepared, never reached
            for lp_ in (loop, loop2):
                if lp_ is None:
                    continue
                lp_.detach_all()
                try:
                    lp_.close()
                except Exception:
                    pass
        if scn.get('bad_byte'):
            # bytes that are not text in the object's encoding (strict error policy): the blocking call raises
            # UnicodeDecodeError to its caller; the awaited call must do the same, not sit out its timeout (or hang)
            if scn.get('enc') != 'utf-8' or scn.get('errors', 'strict') != 'strict' or len(scn['ops']) != 1:
                raise HarnessError('bad_byte: one awaited call on a strict utf-8 object')
            rec_ = r.ops[-1] if r.ops else None
            out = []
            ok_ = rec_ is not None and rec_.get('out') == 'EXC' and isinstance(rec_.get('exc'), UnicodeDecodeError)
            if not ok_ and any(b'\xff' in harness.b(st.get('d', '')) for st in scn.get('peer', []) if st.get('op', 'w') == 'w'):
                what_ = 'blocked the loop for ever' if state['stop'] is not None else 'ended in %s' % (rec_.get('out') if rec_ else None)
                out.append(Violation('C14.decode_error', 'the child wrote bytes that are not UTF-8 (strict): the blocking call raises '
                                     'UnicodeDecodeError, the awaited call %s' % what_, None, {'call': {'api': 'decode'}}))
            r.w.probe('undecodable_bytes_during_an_awaited_call')
            info = engine.collect_info(r)
            info['counters'] = {'async_calls': 1, 'sync_calls': 0, 'idle_chunks': 0}
            info['nchunks'] = max(1, info.get('nchunks', 0))
            info['probes'] = dict(r.w.probes)
            return out, info
        vs = engine.evaluate(r, clauses)
        out = []
        for v in vs:
            call = v.detail.get('call') or {}
            v2 = Violation('C14.' + v.clause.replace('.', '_'), v.msg, v.site, dict(v.detail))
            out.append(v2)
        # awaited calls with a finite timeout are bounded by it
        for c in r.calls:
            if not c.get('async'):
                continue
            # timeout 0 "still examines pending text and whatever is immediately readable", as the blocking call does
            kd0, vl0 = c['outcome']
            if c['timeout'] == 0 and not out and readable0.get(c['t0']) and \
                    ((kd0 == 'exc' and isinstance(vl0, TIMEOUT)) or (kd0 == 'ret' and c.get('after') is TIMEOUT)):
                mine = [i for i in range(c['c0'], c['c1']) if i not in late]
                if not mine:
                    out.append(Violation('C14.zero', 'awaited call with timeout 0 reported TIMEOUT without looking at the %d bytes that were '
                                         'readable when it began (the blocking call reads them and searches)' % readable0[c['t0']],
                                         None, {'call': engine._call_brief(c)}))
            to = c['timeout']
            if to == -1:
                to = c['inst_timeout']
            if to is not None and to >= 0 and c['t1'] - c['t0'] > to * 1e6 + EPS_US and not out:
                out.append(Violation('C14.overrun', 'awaited call with timeout %r took %.3f virtual s' % (to, (c['t1'] - c['t0']) / 1e6),
                                     None, {'call': engine._call_brief(c)}))
            # ... and, like the blocking call, never report TIMEOUT before the time is up (parity with C05's clause)
            kind_, val_ = c['outcome']
            is_to_ = (kind_ == 'exc' and isinstance(val_, TIMEOUT)) or (kind_ == 'ret' and c.get('after') is TIMEOUT)
            if is_to_ and to is not None and to > 0 and c['t1'] - c['t0'] < to * 1e6 - 200 and not out and kind_ != 'cancel':
                out.append(Violation('C14.early_timeout', 'awaited call with timeout %r reported TIMEOUT after %.6f virtual s'
                                     % (to, (c['t1'] - c['t0']) / 1e6), None, {'call': engine._call_brief(c)}))
        if state.get('idle_eof_bad') and not out:
            out.append(Violation('C14.eof_after_idle', 'stream ended while no call was outstanding; the next awaited call did not report EOF',
                                 None, {'call': state['idle_eof_bad']}))
        if state['stop'] is not None and not out:
            # blocked for ever inside an awaited call: a finding only if that call had a finite timeout
            pend_op = scn['ops'][state['k']] if state.get('k') is not None and state['k'] < len(scn['ops']) else None
            if pend_op is not None and pend_op.get('op') == 'expect' and pend_op.get('to', -1) is not None:
                out.append(Violation('C14.hang', 'awaited call with timeout %r blocked the loop for ever: %s'
                                     % (pend_op.get('to'), state['stop']), None, {}))
        if readlog is not None and not scn.get('bad_byte'):
            raw_ = engine.bytes_read_by_cut(r)
            if raw_ is not None:
                st_ = child.string_type
                ws_ = readlog.writes()
                if any(type(x) is not st_ for x in ws_):
                    out.append(Violation('C11.type', 'the read log received %s in %s mode on the awaited path'
                                         % (sorted(set(type(x).__name__ for x in ws_)), st_.__name__), None, {'log': 'logfile_read', 'call': {}}))
                else:
                    got_ = st_().join(ws_)
                    if child.encoding is not None:
                        import codecs
                        want_ = codecs.getincrementaldecoder(child.encoding)(child.codec_errors).decode(raw_, False)
                    else:
                        want_ = raw_
                    if got_ != want_:
                        out.append(Violation('C11.read_truth', 'awaited history: the read log holds %d characters, the kernel handed over text of '
                                             '%d (text delivered while no call was outstanding, or in the iteration in which a timer fired, '
                                             'belongs in the log too)' % (len(got_), len(want_)), None, {'log': 'logfile_read', 'call': {}}))
            r.w.probe('read_log_on_an_awaited_history')
        info = engine.collect_info(r)
        na = len([c for c in r.calls if c.get('async')])
        info['counters'] = {'async_calls': na, 'sync_calls': len(r.calls) - na,
                            'idle_chunks': 0}
        # data that arrived while no call was outstanding
        prev = 0
        for c in r.calls:
            if c['c0'] > prev:
                info['counters']['idle_chunks'] += c['c0'] - prev
            prev = c['c1']
        if info['counters']['idle_chunks']:
            r.w.probe('data_between_awaits')
        if na and len(r.calls) - na:
            r.w.probe('mixed_sync_async')
        for c in r.calls:
            if c.get('async') and c['outcome'][0] == 'exc' and isinstance(c['outcome'][1], TIMEOUT):
                r.w.probe('awaited_timeout')
        info['probes'] = dict(r.w.probes)
        return out, info
    return harness.run_with(scn, body)
