"""Simulated kernel: descriptors, pipes, ptys with a line discipline, stream
sockets, processes, signals, waitpid.  Only what pexpect can observe is
modelled; every rule here is calibrated against Linux by tools/calibrate_kernel.py.
"""
import errno
import os as _os
import signal as _signal
import termios as _termios

from .world import SimHang, HarnessError

FD_BASE = 1000
PID_BASE = 50000

# termios flag bits (Linux values via the termios module)
ECHO = _termios.ECHO
ICANON = _termios.ICANON
ISIG = _termios.ISIG
ICRNL = _termios.ICRNL
OPOST = _termios.OPOST
ONLCR = _termios.ONLCR
ECHOCTL = getattr(_termios, 'ECHOCTL', 0o1000)
IEXTEN = _termios.IEXTEN
VINTR, VEOF, VMIN, VTIME = _termios.VINTR, _termios.VEOF, _termios.VMIN, _termios.VTIME

FATAL = set([_signal.SIGHUP, _signal.SIGINT, _signal.SIGQUIT, _signal.SIGILL,
             _signal.SIGABRT, _signal.SIGFPE, _signal.SIGKILL, _signal.SIGSEGV,
             _signal.SIGPIPE, _signal.SIGALRM, _signal.SIGTERM, _signal.SIGUSR1,
             _signal.SIGUSR2, _signal.SIGBUS, _signal.SIGTRAP, _signal.SIGSYS,
             _signal.SIGXCPU, _signal.SIGXFSZ, _signal.SIGVTALRM, _signal.SIGPROF])
STOPPING = set([_signal.SIGSTOP, _signal.SIGTSTP, _signal.SIGTTIN, _signal.SIGTTOU])
UNBLOCKABLE = set([_signal.SIGKILL, _signal.SIGSTOP])


def oserr(code):
    return OSError(code, _os.strerror(code))


def default_termios():
    cc = [b'\x00'] * 32
    cc[VINTR] = b'\x03'
    cc[_termios.VQUIT] = b'\x1c'
    cc[_termios.VERASE] = b'\x7f'
    cc[_termios.VKILL] = b'\x15'
    cc[VEOF] = b'\x04'
    cc[VMIN] = 1
    cc[VTIME] = 0
    cc[_termios.VSTART] = b'\x11'
    cc[_termios.VSTOP] = b'\x13'
    cc[_termios.VSUSP] = b'\x1a'
    iflag = ICRNL | _termios.IXON
    oflag = OPOST | ONLCR
    cflag = _termios.CS8 | _termios.CREAD
    lflag = ISIG | ICANON | ECHO | _termios.ECHOE | _termios.ECHOK | ECHOCTL | IEXTEN
    return [iflag, oflag, cflag, lflag, _termios.B38400, _termios.B38400, cc]


class OpenFile(object):
    """An open file description as seen through a CUT descriptor or a peer handle."""
    kind = 'file'
    istty = False

    def readable(self):
        return True

    def read_now(self, n):
        raise oserr(errno.EBADF)

    def write_room(self):
        return 1 << 30

    def write_now(self, data):
        raise oserr(errno.EBADF)

    def hup(self):
        return False

    def close(self):
        pass


class RegFile(OpenFile):
    """A regular file that another process keeps appending to (reading through a log file with fdspawn): always
    readable; a read at the current end returns b'' -- an end-of-file indication that is not the end of the stream."""
    kind = 'regfile'

    def __init__(self, kernel):
        self.k = kernel
        self.data = bytearray()
        self.pos = 0
        self.open = True
        self.log = self.data

    def readable(self):
        return True

    def read_now(self, n):
        avail = len(self.data) - self.pos
        if avail <= 0:
            return b''
        n = self.k.tear(n, avail)
        d = bytes(self.data[self.pos:self.pos + n])
        self.pos += len(d)
        return d

    def write_now(self, data):          # the appending process
        self.data += data
        self.k.kick()
        return len(data)

    def close(self):
        self.open = False


class Pipe(object):
    def __init__(self, kernel, cap):
        self.k = kernel
        self.buf = bytearray()
        self.cap = max(1, int(cap))
        self.readers = 0
        self.writers = 0
        self.total = 0
        self.log = bytearray() if kernel.keep_logs else None


class PipeR(OpenFile):
    kind = 'pipe_r'

    def __init__(self, pipe):
        self.p = pipe
        pipe.readers += 1
        self.open = True

    def readable(self):
        return bool(self.p.buf) or self.p.writers == 0

    def read_now(self, n):
        p = self.p
        if p.buf:
            n = p.k.tear(n, len(p.buf))
            data = bytes(p.buf[:n])
            del p.buf[:n]
            p.k.kick()
            return data
        if p.writers == 0:
            return b''
        raise HarnessError('read_now on an unreadable pipe')

    def hup(self):
        return self.p.writers == 0

    def close(self):
        if self.open:
            self.open = False
            self.p.readers -= 1
            self.p.k.kick()


class PipeW(OpenFile):
    kind = 'pipe_w'

    def __init__(self, pipe):
        self.p = pipe
        pipe.writers += 1
        self.open = True

    def readable(self):
        return False

    def write_room(self):
        if self.p.readers == 0:
            return 1 << 30     # will fail with EPIPE immediately
        return self.p.cap - len(self.p.buf)

    def write_now(self, data):
        p = self.p
        if p.readers == 0:
            raise oserr(errno.EPIPE)
        room = p.cap - len(p.buf)
        data = data[:room]
        p.buf += data
        p.total += len(data)
        if p.log is not None:
            p.log += data
        p.k.kick()
        return len(data)

    def close(self):
        if self.open:
            self.open = False
            self.p.writers -= 1
            self.p.k.kick()


class Pty(object):
    def __init__(self, kernel, out_cap=65536, in_cap=4096, eof_flavour='eio', hup_write=None):
        self.k = kernel
        # write to the master once the slave side is gone: accepted and discarded on current Linux
        # (calibrated), EIO on older kernels and BSDs ('eio' flavour, chosen per scenario)
        self.hup_write = hup_write or kernel.w.scn.get('hup_write', 'ok')
        self.attr = default_termios()
        self.winsize = (24, 80)
        self.out = bytearray()       # slave -> master, after output processing
        self.out_total = 0
        self.inq = bytearray()       # master -> slave, readable by the slave now
        self.line = bytearray()      # canonical line being assembled
        self.in_eof = 0              # pending VEOF marks (zero-length reads)
        self.in_total = 0            # bytes written to the master
        self.out_cap = out_cap
        self.in_cap = in_cap
        self.master_open = True
        self.slave_refs = 0
        self.slave_ever = False
        self.fg = None               # foreground Proc
        self.eof_flavour = eof_flavour
        self.session = None
        self.out_log = bytearray() if kernel.keep_logs else None
        self.in_log = bytearray() if kernel.keep_logs else None
        self.discard_log = bytearray() if kernel.keep_logs else None   # written after the slave side was gone

    # flags
    def lflag(self, bit):
        return bool(self.attr[3] & bit)

    def _echo(self, b):
        # echo goes to the master's read side through output processing
        if b == 0x0a or b == 0x0d:
            self._emit(bytes([b]))
        elif b < 0x20 and b != 0x09 and self.lflag(ECHOCTL):
            self._raw_out(bytes([0x5e, b + 0x40]))
        else:
            self._raw_out(bytes([b]))

    def _emit(self, data):
        if (self.attr[1] & OPOST) and (self.attr[1] & ONLCR):
            data = data.replace(b'\n', b'\r\n')
        self._raw_out(data)

    def _raw_out(self, data):
        self.out += data
        self.out_total += len(data)
        if self.out_log is not None:
            self.out_log += data

    def master_write(self, data):
        """Input processing (master -> slave)."""
        cc = self.attr[6]
        if self.in_log is not None:
            self.in_log += data
        for b in data:
            self.in_total += 1
            if (self.attr[0] & ICRNL) and b == 0x0d:
                b = 0x0a
            if self.lflag(ISIG) and cc[VINTR] != b'\x00' and b == cc[VINTR][0]:
                if self.lflag(ECHO):
                    self._echo(b)
                # flush input, signal the foreground process
                del self.line[:]
                del self.inq[:]
                if self.fg is not None:
                    self.k.signal_proc(self.fg, _signal.SIGINT)
                continue
            if self.lflag(ISIG) and b == cc[_termios.VQUIT][0] and cc[_termios.VQUIT] != b'\x00':
                if self.fg is not None:
                    self.k.signal_proc(self.fg, _signal.SIGQUIT)
                continue
            if self.lflag(ISIG) and b == cc[_termios.VSUSP][0] and cc[_termios.VSUSP] != b'\x00':
                if self.fg is not None:
                    self.k.signal_proc(self.fg, _signal.SIGTSTP)
                continue
            if self.lflag(ICANON):
                if b == cc[VEOF][0]:
                    if self.line:
                        self.inq += self.line
                        del self.line[:]
                    else:
                        self.in_eof += 1
                    continue
                if b == cc[_termios.VERASE][0]:
                    if self.line:
                        self.line.pop()
                        if self.lflag(ECHO):
                            self._raw_out(b'\x08 \x08')
                    continue
                if b == cc[_termios.VKILL][0]:
                    del self.line[:]
                    continue
                self.line.append(b)
                if self.lflag(ECHO):
                    self._echo(b)
                if b == 0x0a:
                    self.inq += self.line
                    del self.line[:]
            else:
                self.inq.append(b)
                if self.lflag(ECHO):
                    self._echo(b)
        self.k.kick()

    def hung_up(self):
        return self.slave_ever and self.slave_refs == 0


class PtyMaster(OpenFile):
    kind = 'pty_m'
    istty = True

    def __init__(self, pty):
        self.pty = pty
        self.open = True

    def readable(self):
        return bool(self.pty.out) or self.pty.hung_up()

    def hup(self):
        return self.pty.hung_up()

    def read_now(self, n):
        pty = self.pty
        if pty.out:
            n = pty.k.tear(n, len(pty.out))
            data = bytes(pty.out[:n])
            del pty.out[:n]
            pty.k.kick()
            return data
        if pty.hung_up():
            if pty.eof_flavour == 'eio':
                raise oserr(errno.EIO)
            return b''
        raise HarnessError('read_now on an unreadable pty master')

    def write_room(self):
        pty = self.pty
        if pty.hung_up():
            return 1 << 30   # EIO immediately
        return pty.in_cap - len(pty.inq) - len(pty.line)

    def write_now(self, data):
        pty = self.pty
        if pty.hung_up():
            if pty.hup_write == 'eio':
                raise oserr(errno.EIO)
            if pty.discard_log is not None:
                pty.discard_log += data
            return len(data)          # nobody will ever read it
        room = max(0, pty.in_cap - len(pty.inq) - len(pty.line))
        data = data[:room]
        pty.master_write(data)
        return len(data)

    def close(self):
        if self.open:
            self.open = False
            pty = self.pty
            pty.master_open = False
            # hang-up: SIGHUP (then SIGCONT) to the session's foreground process
            if pty.fg is not None:
                pty.k.signal_proc(pty.fg, _signal.SIGHUP)
                pty.k.signal_proc(pty.fg, _signal.SIGCONT, quiet=True)
            pty.k.kick()


class PtySlave(OpenFile):
    kind = 'pty_s'
    istty = True

    def __init__(self, pty):
        self.pty = pty
        pty.slave_refs += 1
        pty.slave_ever = True
        self.open = True

    def readable(self):
        pty = self.pty
        return bool(pty.inq) or pty.in_eof > 0 or not pty.master_open

    def read_now(self, n):
        pty = self.pty
        if pty.inq:
            if pty.lflag(ICANON):
                i = pty.inq.find(b'\n')
                end = len(pty.inq) if i < 0 else i + 1
                n = min(n, end)
            data = bytes(pty.inq[:n])
            del pty.inq[:n]
            pty.k.kick()
            return data
        if pty.in_eof > 0:
            pty.in_eof -= 1
            return b''
        if not pty.master_open:
            raise oserr(errno.EIO)
        raise HarnessError('read_now on an unreadable pty slave')

    def write_room(self):
        pty = self.pty
        if not pty.master_open:
            return 1 << 30
        return pty.out_cap - len(pty.out)

    def write_now(self, data):
        pty = self.pty
        if not pty.master_open:
            raise oserr(errno.EIO)
        room = max(0, pty.out_cap - len(pty.out))
        data = data[:room]
        pty._emit(data)
        pty.k.kick()
        return len(data)

    def close(self):
        if self.open:
            self.open = False
            self.pty.slave_refs -= 1
            self.pty.k.kick()


class SockBuf(object):
    def __init__(self, cap, keep=False):
        self.buf = bytearray()
        self.cap = cap
        self.wr_closed = False    # writer shut down / closed -> EOF after buf
        self.total = 0
        self.log = bytearray() if keep else None


class SockEnd(OpenFile):
    """One end of a connected stream pair."""
    kind = 'sock'

    def __init__(self, kernel, rx, tx):
        self.k = kernel
        self.rx = rx
        self.tx = tx
        self.open = True
        self.reset = False        # peer reset the connection
        self.rd_shut = False
        self.peer = None

    def readable(self):
        return bool(self.rx.buf) or self.rx.wr_closed or self.reset or self.rd_shut

    def hup(self):
        return self.rx.wr_closed or self.reset

    def read_now(self, n):
        if self.reset and not self.rx.buf:
            raise OSError(errno.ECONNRESET, _os.strerror(errno.ECONNRESET))
        if self.rx.buf:
            n = self.k.tear(n, len(self.rx.buf))
            data = bytes(self.rx.buf[:n])
            del self.rx.buf[:n]
            self.k.kick()
            return data
        if self.rx.wr_closed or self.rd_shut:
            return b''
        raise HarnessError('read_now on an unreadable socket')

    def write_room(self):
        if self.reset or self.tx.wr_closed:
            return 1 << 30
        return self.tx.cap - len(self.tx.buf)

    def write_now(self, data):
        if self.reset:
            raise OSError(errno.ECONNRESET, _os.strerror(errno.ECONNRESET))
        if self.tx.wr_closed or (self.peer is not None and not self.peer.open):
            raise oserr(errno.EPIPE)
        room = max(0, self.tx.cap - len(self.tx.buf))
        data = data[:room]
        self.tx.buf += data
        self.tx.total += len(data)
        if self.tx.log is not None:
            self.tx.log += data
        self.k.kick()
        return len(data)

    def shutdown(self, how):
        if self.reset:
            raise OSError(errno.ENOTCONN, _os.strerror(errno.ENOTCONN))
        self.tx.wr_closed = True
        self.rd_shut = True
        self.k.kick()

    def do_reset(self):
        """Peer aborts the connection (RST)."""
        if self.peer is not None:
            self.peer.reset = True
        self.k.kick()

    def close(self):
        if self.open:
            self.open = False
            self.tx.wr_closed = True
            self.k.kick()


class Proc(object):
    def __init__(self, kernel, pid, name):
        self.k = kernel
        self.pid = pid
        self.name = name
        self.state = 'running'   # running|stopped|closing|zombie|reaped
        self.status = None       # wait status word once dead
        self.disp = {}           # sig -> 'ign' | callable(sig)
        self.pending = []        # signals queued while stopped
        self.handles = []        # OpenFile refs it holds
        self.actor = None
        self.exit_gap_us = 0
        self.sig_latency_us = 0
        self.tty = None
        self.received_signals = []
        self.death_t = None
        self.ever_stopped = False

    def alive(self):
        return self.state in ('running', 'stopped')


class Kernel(object):
    def __init__(self, world):
        self.w = world
        world.kernel = self
        self.fds = {}
        self.fd_opened = 0
        self.procs = {}
        self.next_pid = PID_BASE
        self.waiters = []       # wake hooks for actors: callables
        self.low = set()          # low descriptor numbers (0) the simulation has claimed (scenario flag fd_zero)
        self.tear_plan = world.scn.get('tear') or []   # list of ints (cyclic); 0 = no tear
        self.tear_i = 0
        self.torn = 0
        self.touched = {}       # fd -> list of (call) for decoy detection
        self.watch = set()
        self.closed_log = []
        self.stale_kills = []
        self.keep_logs = bool(world.scn.get('keep_logs', True))

    # ------------------------------------------------------------ wakeups
    def kick(self):
        """Kernel state changed: let blocked actors re-evaluate."""
        if self.waiters:
            ws = self.waiters
            self.waiters = []
            for fn in ws:
                fn()

    def tear(self, want, avail):
        """How many bytes a read of `want` returns when `avail` are buffered."""
        n = min(want, avail)
        if self.tear_plan and n > 1:
            t = self.tear_plan[self.tear_i % len(self.tear_plan)]
            self.tear_i += 1
            if t and t < n:
                self.torn += 1
                self.w.fault('torn_read')
                return int(t)
        return n

    # -------------------------------------------------------- descriptors
    def alloc_fd(self, of):
        # many_fds: the application already holds > 1024 descriptors, so every new one is beyond select()'s FD_SETSIZE
        fd = FD_BASE + (1100 if self.w.scn.get('many_fds') else 0)
        if self.w.scn.get('many_fds'):
            self.w.fault('fd_beyond_fd_setsize')
        if self.w.scn.get('fd_zero') and not self.w.scn.get('many_fds') and 0 not in self.fds:
            # a process whose standard input is closed (a daemon): the lowest free descriptor number is 0
            fd = 0
            self.low.add(0)
            self.w.fault('descriptor_number_zero')
        while fd in self.fds:
            fd += 1
        self.fds[fd] = of
        self.fd_opened += 1
        return fd

    def get(self, fd):
        of = self.fds.get(fd)
        if of is None:
            raise oserr(errno.EBADF)
        return of

    def is_sim(self, fd):
        return isinstance(fd, int) and (fd >= FD_BASE or fd in self.low)

    def close_fd(self, fd):
        of = self.fds.pop(fd, None)
        if of is None:
            raise oserr(errno.EBADF)
        self.closed_log.append(fd)
        of.close()

    def touch(self, fd, name):
        if fd in self.watch:
            self.touched.setdefault(fd, []).append((name, self.w.callsite()))

    # ------------------------------------------------------------- objects
    def pipe(self, cap=65536):
        p = Pipe(self, cap)
        return PipeR(p), PipeW(p)

    def pty(self, **kw):
        return Pty(self, **kw)

    def socketpair(self, cap=65536, cap_back=None):
        a2b = SockBuf(cap, self.keep_logs)
        b2a = SockBuf(cap if cap_back is None else cap_back, self.keep_logs)
        a = SockEnd(self, b2a, a2b)
        b = SockEnd(self, a2b, b2a)
        a.peer = b
        b.peer = a
        return a, b

    # ----------------------------------------------------------- processes
    def new_proc(self, name='child'):
        pid = self.next_pid
        self.next_pid += 1
        p = Proc(self, pid, name)
        self.procs[pid] = p
        return p

    def signal_proc(self, p, sig, quiet=False):
        """Deliver sig to process p (after its signal latency)."""
        if not p.alive():
            return
        lat = p.sig_latency_us
        if lat:
            self.w.after(lat, lambda: self._deliver(p, sig))
        else:
            self._deliver(p, sig)

    def _deliver(self, p, sig):
        if not p.alive():
            return
        p.received_signals.append(sig)
        if sig == _signal.SIGKILL:
            self.die(p, signal=sig)
            return
        if sig == _signal.SIGCONT:
            if p.state == 'stopped':
                p.state = 'running'
                pend, p.pending = p.pending, []
                for s in pend:
                    self._deliver(p, s)
                self.kick()
            h = p.disp.get(sig)
            if callable(h):
                h(sig)
            return
        if p.state == 'stopped':
            p.pending.append(sig)
            return
        h = p.disp.get(sig)
        if h == 'ign' and sig not in UNBLOCKABLE:
            return
        if callable(h) and sig not in UNBLOCKABLE:
            h(sig)
            self.kick()
            return
        if sig in STOPPING:
            p.state = 'stopped'
            p.ever_stopped = True
            self.kick()
            return
        if sig in FATAL:
            self.die(p, signal=sig)
            return
        # SIGCHLD, SIGWINCH, SIGURG...: default ignore

    def die(self, p, code=None, signal=None):
        if not p.alive():
            return
        if signal is not None:
            p.status = int(signal) & 0x7f
        else:
            p.status = (int(code) & 0xff) << 8
        p.death_t = self.w.now
        p.state = 'closing'
        for h in p.handles:
            h.close()
        p.handles = []
        if p.actor is not None:
            p.actor.dead = True
        if p.exit_gap_us:
            self.w.fault('exit_gap')
            self.w.after(p.exit_gap_us, lambda: self._zombify(p))
        else:
            self._zombify(p)
        self.kick()

    def _zombify(self, p):
        if p.state == 'closing':
            p.state = 'zombie'
            self.kick()

    def kill(self, pid, sig):
        p = self.procs.get(pid)
        if p is not None and p.state == 'reaped':
            # the pid was given back to the kernel: it may belong to anybody now
            self.stale_kills.append((pid, int(sig), self.w.callsite()))
        if p is None or p.state == 'reaped':
            raise oserr(errno.ESRCH)
        if sig == 0:
            return
        if p.state in ('zombie', 'closing'):
            return
        self.signal_proc(p, sig)

    def waitpid(self, pid, options):
        p = self.procs.get(pid)
        if p is None or p.state == 'reaped':
            raise oserr(errno.ECHILD)
        if p.state != 'zombie':
            if options & _os.WNOHANG:
                return (0, 0)
            self.w.wait_plain(lambda: p.state == 'zombie', None, 'waitpid(%d,0)' % pid)
        p.state = 'reaped'
        return (pid, p.status)

    def zombies(self):
        return [p.pid for p in self.procs.values() if p.state in ('zombie', 'closing')]

    def unreaped_dead(self):
        return [p.pid for p in self.procs.values() if p.state in ('zombie', 'closing')]
