"""C15 family: interact() as a transparent two-way pipe (plus C11.interact).

Outer terminal: a sim pty whose slave is pexpect's STDIN/STDOUT and whose
master is held by the `user` actor (types keystroke bursts, sees the display).
Inner child: raw-mode terminal program that records what it reads, optionally
echoes, prints scripted output and exits at a seeded point.
"""
import codecs

from . import harness
from . import peers
from . import shim
from . import transports as T
from .engine import Violation, gen_costs, collect_info, gen_eintr, gen_intr
from .harness import EOF, TIMEOUT
from .kernel import PtyMaster, PtySlave, ECHO, ICANON, ISIG, OPOST, IEXTEN, default_termios
from .sendlog import SeqLog, make_log
from .world import SimHang, HarnessError, SimInterrupt


def gen_keys(rng, esc, allbytes):
    n = rng.choice([0, 1, 3, 10, 40]) if rng.random() < 0.85 else rng.randint(1001, 2600)
    if allbytes:
        pool = [c for c in range(256) if esc is None or c != esc]
    else:
        pool = [c for c in b'abc xyz\r\n\t\x7f\x03\x04\x1b' + u'\xe9€'.encode('utf-8') if esc is None or c != esc]
    return bytes(rng.choice(pool) for _ in range(n))


def generate(rng):
    scn = {'family': 'interact', 'transport': 'pty'}
    scn['costs'] = gen_costs(rng)
    scn['use_poll'] = rng.random() < 0.4
    scn['enc'] = rng.choice([None, None, 'utf-8'])
    esc = rng.choice([29, 29, 29, 1, 126, None])
    scn['esc'] = esc
    allbytes = rng.random() < 0.5
    bursts = []
    nb = rng.randint(0, 5)
    for _ in range(nb):
        bursts.append({'d': harness.l1(gen_keys(rng, esc, allbytes)), 'dt': rng.choice([200, 300, 1000, 20000, 100000])})
    # place the escape character
    how = rng.choice(['absent', 'first', 'middle', 'last', 'repeated', 'own_burst']) if esc is not None else 'absent'
    scn['esc_how'] = how
    if esc is not None and how != 'absent':
        e = chr(esc)
        if not bursts:
            bursts.append({'d': '', 'dt': 300})
        i = rng.randrange(len(bursts))
        d = bursts[i]['d']
        if how == 'first':
            d = e + d
        elif how == 'last':
            d = d + e
        elif how == 'middle':
            p = rng.randint(0, len(d))
            d = d[:p] + e + d[p:]
        elif how == 'repeated':
            p = rng.randint(0, len(d))
            q = rng.randint(0, len(d))
            d = d[:min(p, q)] + e + d[min(p, q):max(p, q)] + e + d[max(p, q):]
        else:
            bursts.insert(i, {'d': e, 'dt': 300})
            d = bursts[i + 1]['d']
            i = i + 1
        bursts[i]['d'] = d
    scn['bursts'] = bursts
    scn['filters'] = rng.choice(['none', 'none', 'in', 'out', 'both', 'in_q2esc', 'in_q2esc', 'in_stripesc'])
    if scn['filters'] == 'in_q2esc' and esc is not None and bursts:
        # the filter turns Ctrl-Q into the escape character: the session must end there
        b0 = rng.choice(bursts)
        p0 = rng.randint(0, len(b0['d']))
        b0['d'] = b0['d'][:p0] + '\x11' + b0['d'][p0:]
    scn['pending'] = rng.choice(['', '', 'PENDING-OUTPUT\r\n', 'x' * 1500])
    scn['child_echo'] = rng.random() < 0.5
    out = []
    for _ in range(rng.randint(0, 4)):
        n = rng.choice([1, 5, 50, 999, 1000, 1001, 3000, 6000])
        out.append({'n': n, 'dt': rng.choice([0, 50, 400, 5000, 50000])})
    scn['child_out'] = out
    r = rng.random()
    if esc is None or how == 'absent' or r < 0.4:
        scn['child_exit'] = {'dt': rng.choice([0, 100, 3000, 100000, 300000])}
    if rng.random() < 0.3:
        scn['exit_gap_us'] = rng.choice([1, 100, 5000])
    scn['logs'] = rng.choice([[], [], ['logfile'], ['logfile_read', 'logfile_send']])
    if rng.random() < 0.25:
        scn['log_kind'] = 'len'
    if rng.random() < 0.25:
        scn['short_writes'] = [rng.choice([0, 1, 3, 100]) for _ in range(rng.randint(1, 4))]
    scn['in_cap'] = rng.choice([4096, 4096, 64])
    if rng.random() < 0.2:
        scn['outer_cc'] = rng.choice([[0, 5], [0, 0], [4, 2], [1, 1]])
    scn['hup_write'] = rng.choice(['ok', 'ok', 'ok', 'eio'])
    scn['after_interact'] = rng.random() < 0.5
    if esc is not None and scn.get('esc_how') != 'absent' and rng.random() < 0.12:
        # the child floods its terminal (back-pressure keeps it readable all the time) while the user types the escape
        # character: the session must still end promptly, however much output is still coming
        scn['child_out'] = [{'n': 1000, 'dt': 0, 'rep': rng.choice([200, 600, 1500])}]
        scn.pop('child_exit', None)
        scn['filters'] = rng.choice(['none', 'none', 'out'])
        # the flooding child does not read its input meanwhile: what is typed must fit into the terminal's input queue,
        # otherwise copy loop and child wait for each other (inherent to any such proxy, not what is judged here)
        scn['in_cap'] = 4096
        scn.pop('short_writes', None)
        tot = 0
        for b in scn['bursts']:
            room = max(0, 3000 - tot)
            if len(b['d']) > room:
                b['d'] = b['d'][:room]
            tot += len(b['d'])
    scn['out_kind'] = rng.choice(['digits', 'digits', 'bytes', 'utf8'])
    if not scn['logs'] and rng.random() < 0.3:
        scn['late_log'] = True
        scn['late_at'] = rng.choice([1, 2, 3])
    if rng.random() < 0.2:
        # the pending output comes from real reads: an earlier bounded search (expect_exact, or expect with a search window)
        # timed out and trimmed the search buffer to its tail; ALL of the pending text is due on the display, and none of it
        # may be handed back again by the first call after the session
        scn['pending'] = ''
        scn['pre'] = {'n': rng.choice([3, 40, 200, 1500, 2500]), 'kind': rng.choice(['exact', 'window']),
                      'w': rng.choice([1, 5, 50])}
        if scn['enc'] and scn['out_kind'] == 'bytes':
            scn['out_kind'] = rng.choice(['digits', 'utf8'])
        if scn['enc'] and scn['out_kind'] == 'utf8':
            scn['pre']['n'] = rng.choice([3, 5, 6, 7, 8, 9, 40, 41, 42, 43, 1500, 1501, 1502])   # may end inside a character
            scn['child_echo'] = False
        scn['after_expect'] = rng.random() < 0.7
    if esc is not None and rng.random() < 0.04:
        # an escape character that has no Latin-1 byte: interact() cannot look for it and raises; whatever it does, the
        # user's terminal is in the mode it was found in afterwards
        scn['esc_text'] = rng.choice([u'\u20ac', u'\u0100', u'\U0001f600'])
        scn['esc_how'] = 'absent'
    gen_eintr(rng, scn)
    # Ctrl-C does not reach a raw-mode session as a signal, but a SIGTERM/SIGALRM handler of the application that raises does:
    # interact() is abandoned while it waits, and the user's terminal must be back in the mode it was found in
    gen_intr(rng, scn, p=0.05, nmax=10)
    return scn


def enumerate_scenarios(tier, seed):
    """The child prints N bytes and exits; its exit is placed before EVERY intercepted
    call of interact()'s copy loop (bounded complete placement)."""
    out = []
    for use_poll in (False, True):
        for n_out in (5, 2500):
            for gap in (0, 300):
                base = {'family': 'interact', 'transport': 'pty', 'costs': [3], 'use_poll': use_poll, 'enc': None, 'esc': 29,
                        'esc_how': 'absent', 'bursts': [{'d': 'hi', 'dt': 400}], 'filters': 'none', 'pending': '',
                        'child_echo': False, 'logs': [], 'in_cap': 4096, 'exit_gap_us': gap}
                for n in range(1, (40 if tier == 'quick' else 90)):
                    s = dict(base)
                    s['hup_write'] = 'eio' if (n + gap) % 2 else 'ok'
                    s['child_out'] = [{'n': n_out, 'dt': 0, 'at': [0, max(1, n - 1)]}]
                    s['child_exit'] = {'at': [0, n]}
                    s['enum'] = [use_poll, n_out, gap, n]
                    out.append(s)
    return out


def run(scn, prop=None):
    sc = dict(scn)
    enc = scn.get('enc')
    esc = scn.get('esc')

    def body(r):
        w, k = r.w, r.k
        out = []
        received = []
        # ---------------------------------------------------- outer terminal
        outer = k.pty(out_cap=1 << 23, in_cap=1 << 16)
        outer_master = PtyMaster(outer)
        outer_slave = PtySlave(outer)
        tty_fd = k.alloc_fd(outer_slave)
        outer.attr[1] &= ~OPOST      # the display's own newline processing is not under test
        oc = scn.get('outer_cc')
        if oc:
            # the user's terminal is not in the textbook state when interact() is entered: an application that reads
            # keys itself has left it non-canonical with its own VMIN / VTIME -- all of it must be back afterwards
            import termios as _t
            outer.attr[3] &= ~(ICANON | ECHO)
            outer.attr[6] = list(outer.attr[6])
            outer.attr[6][_t.VMIN] = int(oc[0])
            outer.attr[6][_t.VTIME] = int(oc[1])
        mode_before = [x if not isinstance(x, list) else list(x) for x in outer.attr]
        displayed = []

        def user_gen(a):
            for b in scn.get('bursts', []):
                yield ('sleep', max(200, b.get('dt', 300)))
                d = harness.b(b['d'])
                if d:
                    try:
                        yield ('write', outer_master, d)
                    except OSError:
                        return
                    typed_at.append((a.w.now, d))
            while True:
                yield ('pause',)
        typed_at = []
        user = peers.Actor(w, k, None, user_gen, 1, 'user')

        # --------------------------------------------------------- inner child
        def child_gen(a):
            slave = a.proc.handles[0]
            # a separate activity would be needed for full duplex; the script interleaves instead
            total = 0
            pre = scn.get('pre')
            if pre:
                if scn.get('enc') and scn.get('out_kind') == 'utf8':
                    # multi-byte text that may stop inside a character: the stream goes on where it stopped
                    unit_ = u'a\xe9\u20ac\U0001f600\n\x1d'.encode('utf-8')
                    data = (unit_ * (int(pre['n']) // len(unit_) + 1))[:int(pre['n'])]
                    total = int(pre['n'])
                else:
                    data = (('%06d|' % 0) * (int(pre['n']) // 7 + 1))[:int(pre['n'])].replace('0', 'P').encode()
                try:
                    yield ('write', slave, data)
                except OSError:
                    return
            for st in scn.get('child_out', []):
                if st.get('at'):
                    yield ('at', st['at'][0], st['at'][1])
                elif st.get('dt'):
                    yield ('sleep', st['dt'])
                for _rep in range(int(st.get('rep', 1))):
                    n = st['n']
                    ok = scn.get('out_kind', 'digits')
                    if ok == 'bytes':
                        # every byte value, the escape character and the terminal's special characters included
                        data = bytes((total + i * 37 + (i >> 8) * 11) & 0xff for i in range(n))
                    elif ok == 'utf8':
                        unit = u'a\xe9\u20ac\U0001f600\n\x1d'.encode('utf-8')
                        data = (unit * (n // len(unit) + 2))[total % len(unit):][:n]
                    else:
                        data = (('%06d|' % total) * (n // 7 + 1))[:n].encode()
                    total += n
                    try:
                        yield ('write', slave, data)
                    except OSError:
                        return
            ex = scn.get('child_exit')
            deadline = None
            if ex is not None:
                if ex.get('at'):
                    yield ('at', ex['at'][0], ex['at'][1])
                    yield ('exit', 0)
                    return
                deadline = a.w.now + ex.get('dt', 0)
            # read (and echo) input until told to exit
            while True:
                if deadline is not None and a.w.now >= deadline:
                    yield ('exit', 0)
                    return
                if deadline is not None and not slave.readable():
                    yield ('sleep', max(1, min(200, deadline - a.w.now)))
                    continue
                try:
                    d = yield ('read', slave, 4096)
                except OSError:
                    return
                if not d:
                    return
                received.append(d)
                if scn.get('child_echo'):
                    try:
                        yield ('write', slave, d)
                    except OSError:
                        return

        def factory(proc, slave, pty):
            r.proc, r.pty = proc, pty
            pty.attr[0] = 0
            pty.attr[1] &= ~OPOST
            pty.attr[3] &= ~(ECHO | ICANON | ISIG | IEXTEN)
            pty.in_cap = scn.get('in_cap', 4096)
            proc.exit_gap_us = scn.get('exit_gap_us', 0)
            return peers.Actor(w, k, proc, child_gen, 1, 'child')
        w.child_setup = T.default_child_setup(w, factory, pty_kw=dict(out_cap=1 << 20))
        kw = dict(timeout=1, encoding=enc, use_poll=scn.get('use_poll', False))
        child = T.SimSpawn('/bin/simprog', **kw)
        r.child = child
        w.short_fd = child.child_fd
        stdin_reads = []
        w.on_read = lambda fd, data: stdin_reads.append(data) if fd == tty_fd else None
        child.STDIN_FILENO = tty_fd
        child.STDOUT_FILENO = tty_fd

        class Out(object):
            def flush(self):
                pass
        child.stdout = Out()

        def write_to_stdout(b):
            if isinstance(b, str):
                b = b.encode(enc or 'utf-8')
            return shim.os_write(tty_fd, b)
        child.write_to_stdout = write_to_stdout
        pending = scn.get('pending', '')
        if pending:
            child.buffer = pending if enc else pending.encode('latin-1')
        pre = scn.get('pre')
        pre_raw = b''
        pre_eof = False
        if pre:
            if pending:
                raise HarnessError('pre and pending exclude each other')
            if enc and scn.get('out_kind', 'digits') == 'bytes':
                raise HarnessError('pre in unicode mode needs child output that is text in that encoding')
            never = u'\x00NEVER\x00' if enc else b'\x00NEVER\x00'
            try:
                if pre.get('kind') == 'window':
                    child.expect([never], timeout=0.02, searchwindowsize=max(1, int(pre.get('w', 5))))
                else:
                    child.expect_exact([never], timeout=0.02)
            except TIMEOUT:
                pass
            except EOF:
                pre_eof = True
            # kernel truth: the bytes the earlier call took from the terminal (in unicode mode the last of them may be the
            # beginning of a character that the object's decoder is still holding)
            pre_raw = bytes(r.pty.out_log)[:len(r.pty.out_log) - len(r.pty.out)]
            child.chunks_at_entry = list(child.chunks)
            if enc and len(pre_raw) != len(b''.join(c.encode(enc) for c in child.chunks)):
                r.w.probe('decoder_holds_part_of_a_character_at_interact_entry')
            if len(pre_raw) > len(child.buffer) and not pre_eof:
                r.w.probe('search_buffer_trimmed_before_interact')
        ctr = [0]
        logs = {}
        for name in scn.get('logs', []):
            logs[name] = make_log(scn, ctr, name)
            setattr(child, name, logs[name])
        filt = scn.get('filters', 'none')

        def in_f(b):
            if filt == 'in_q2esc' and esc is not None:
                return b.replace(b'\x11', bytes([esc]))
            if filt == 'in_stripesc' and esc is not None:
                return b.replace(bytes([esc]), b'')
            return b.replace(b'a', b'AA')

        def out_f(b):
            return b.replace(b'0', b'oo')
        kwargs = {}
        if filt in ('in', 'both', 'in_q2esc', 'in_stripesc'):
            kwargs['input_filter'] = in_f
        if filt in ('out', 'both'):
            kwargs['output_filter'] = out_f
        late = {'calls': [], 'log': None, 'from': None}
        if scn.get('late_log') and not scn.get('logs'):
            # the application switches a read log on from its output filter in the middle of the session (the log
            # attributes are public and may be assigned at any time): everything from that chunk on belongs in it
            base_out = out_f if filt in ('out', 'both') else (lambda b: b)

            def out_late(b):
                res_ = base_out(b)
                late['calls'].append(res_)
                if len(late['calls']) == int(scn.get('late_at', 2)) and late['log'] is None:
                    late['log'] = make_log(scn, ctr, 'logfile_read')
                    late['from'] = len(late['calls']) - 1
                    child.logfile_read = late['log']
                return res_
            kwargs['output_filter'] = out_late
        escape_character = None if esc is None else chr(esc)
        if scn.get('esc_text'):
            escape_character = scn['esc_text']
            if esc is None or all(ord(c) < 256 for c in escape_character):
                raise HarnessError('esc_text must be a character without a Latin-1 byte')
        if scn.get('child_out') and any(st.get('rep') for st in scn['child_out']):
            if scn.get('in_cap', 4096) < 4096 or sum(len(b.get('d', '')) for b in scn.get('bursts', [])) > 3500:
                raise HarnessError('flood scenario: typed input must fit into the input queue')
        user.start(0)
        child_fd_at_entry = child.child_fd
        w.begin_op(0)
        w.note('op', (0, 'interact'))
        res = 'ret'
        exc = None
        try:
            w.intr_armed = True
            try:
                child.interact(escape_character=escape_character, **kwargs)
            finally:
                w.intr_armed = False
        except SimInterrupt as e:
            res, exc = 'INTR', e
            r.w.probe('interact_abandoned_from_outside')
        except SimHang as e:
            res, exc = 'HANG', e
        except HarnessError:
            raise
        except Exception as e:
            res, exc = 'EXC', e
        t_ret = w.now
        # ------------------------------------------------------------ oracle
        disp = bytes(outer.out_log)
        child_wrote = bytes(r.pty.out_log)
        got_in = bytes(r.pty.in_log)
        typed = b''.join(harness.b(b['d']) for b in scn.get('bursts', []))
        kdead = not r.proc.alive()
        det = {'result': res, 'exc': repr(exc)[:200], 'esc': esc, 'esc_how': scn.get('esc_how'), 'filters': filt, 'enc': enc,
               'child_dead_at_return': kdead, 'displayed': len(disp), 'child_wrote': len(child_wrote), 'enum': scn.get('enum')}

        def V(clause, msg, **d):
            dd = dict(det)
            dd.update(d)
            out.append(Violation(clause, msg, None, dd))
        if res == 'HANG':
            # blocked for ever: legitimate when neither an escape was typed nor the child exits
            will_end = scn.get('child_exit') is not None or (esc is not None and bytes([esc]) in (in_f(typed) if 'input_filter' in kwargs else typed))
            if will_end:
                V('C15.hang', 'interact() never returned: %s' % exc)
        elif res == 'EXC' and scn.get('esc_text') and isinstance(exc, (UnicodeEncodeError, ValueError, TypeError)):
            r.w.probe('escape_character_refused')      # the caller's mistake; only the terminal mode is judged
        elif res == 'EXC':
            V('C15.exception', 'interact() raised %s: %s' % (type(exc).__name__, exc), site=harness._tb_site(exc))
            out[-1].site = harness._tb_site(exc)
        if res != 'HANG':
            now = outer.attr
            same = all((a == b) for a, b in zip([x if not isinstance(x, list) else list(x) for x in now], mode_before))
            if not same:
                V('C15.termios', 'terminal attributes after interact() differ from before')
        if res == 'ret':
            pend_b = pending.encode(enc or 'latin-1') if pending else b''
            want_disp = child_wrote
            if pre_raw:
                # what the earlier call had read is pending text (shown as it is); the filter sees what interact() reads itself
                # (an earlier call that ended in EOF has handed the text back already: nothing is pending then)
                pend_b = b'' if pre_eof else pre_raw
                want_disp = child_wrote[len(pre_raw):]
            if filt in ('out', 'both'):
                # a filter sees reads of <= 1000 bytes; '0' -> 'oo' is chunk-independent
                want_disp = out_f(want_disp)
            want_disp = pend_b + want_disp
            if pre_raw and pre_eof and enc:
                # the earlier call ended in EOF while the decoder still held the beginning of a character (a stream that ends
                # inside a character): whether those orphaned bytes are shown is not fixed by any statement
                held_ = pre_raw[len(b''.join(c.encode(enc) for c in child.chunks_at_entry)):] if hasattr(child, 'chunks_at_entry') else b''
                if held_ and disp == held_ + want_disp:
                    want_disp = disp
            # which way did it end?
            tf = in_f(typed) if 'input_filter' in kwargs else typed
            ebyte = None if esc is None else bytes([esc])
            # delivered input: a prefix of the (filtered) typed stream ending right before an escape occurrence,
            # or -- when the child exited -- any prefix
            if 'input_filter' in kwargs:
                # the filter is applied per read; 'a' -> 'AA' is chunk-independent
                pass
            # how did the session end?  interact() breaks as soon as a read from the user contains the escape
            ended_by_escape = False
            consumed = b''.join(stdin_reads)
            expect_in = b''
            flt = in_f if 'input_filter' in kwargs else (lambda x: x)
            alts = None
            for rd in stdin_reads:
                frd = flt(rd)
                if ebyte is not None and ebyte in frd:
                    ended_by_escape = True
                    # any occurrence may be the one that ends the session (several escapes in one read)
                    alts = []
                    pos = -1
                    while True:
                        pos = frd.find(ebyte, pos + 1)
                        if pos < 0:
                            break
                        alts.append(expect_in + frd[:pos])
                    break
                expect_in += frd
            if not typed.startswith(consumed):
                V('C15.input', 'interact() read from the user something that was not typed', got=consumed[:60], typed=typed[:60])
            else:
                wants = alts if ended_by_escape else [expect_in]
                if got_in not in wants:
                    if kdead and any(x.startswith(got_in) for x in wants):
                        pass      # the child died before everything could be forwarded
                    elif ebyte is not None and ended_by_escape and len(got_in) > min(len(x) for x in wants) \
                            and not any(x.startswith(got_in) for x in wants):
                        V('C15.escape_delivered', 'the escape character ending the session (or text after it) reached the child',
                          got=got_in[-40:])
                    else:
                        V('C15.input', 'the child received %d bytes, expected %s' % (len(got_in), sorted(set(len(x) for x in wants))),
                          got=got_in[-40:], want=wants[0][-40:])
                if not ended_by_escape and not kdead and not out:
                    V('C15.returned_early', 'interact() returned although the child is alive and no escape was typed')
            if not out:
                if ended_by_escape and not kdead:
                    if not want_disp.startswith(disp):
                        V('C15.output', 'display is not a prefix of pending + child output', got=disp[:60], want=want_disp[:60])
                    elif not disp.startswith(pend_b):
                        V('C15.pending', 'output pending at entry was not flushed to the display first', got=disp[:60])
                else:
                    if disp != want_disp:
                        i = 0
                        while i < min(len(disp), len(want_disp)) and disp[i] == want_disp[i]:
                            i += 1
                        if want_disp.startswith(disp) and kdead and not ended_by_escape:
                            V('C15.output_lost', 'interact() returned because the child exited, but only %d of %d bytes it wrote were displayed'
                              % (len(disp), len(want_disp)), first_diff=i)
                        elif ended_by_escape and want_disp.startswith(disp):
                            pass     # escape and exit raced: a prefix is what the statement allows
                        else:
                            V('C15.output', 'display differs from pending + child output at offset %d' % i,
                              got=disp[max(0, i - 10):i + 30], want=want_disp[max(0, i - 10):i + 30])
            # ---- C11.interact
            st = child.string_type
            for name, lg in logs.items():
                ws = lg.writes()
                bad = sorted(set(type(x).__name__ for x in ws if type(x) is not st))
                if bad:
                    V('C11.interact_type', '%s received %s during interact() in %s mode' % (name, bad, st.__name__), log=name)
                    continue
                if name == 'logfile_read':
                    text = st().join(ws)
                    cw_ = child_wrote[len(pre_raw):]       # (what an earlier call read was read before the logs were attached)
                    want = (out_f(cw_) if filt in ('out', 'both') else cw_)[:len(disp) - len(pend_b)]
                    if enc is None:
                        wantt = want
                    else:
                        # the log is the text of the stream: a character begun in the last read before the session and finished in
                        # it belongs to the session's part of the log as that character
                        dec_ = codecs.getincrementaldecoder(enc)('replace')
                        head_ = dec_.decode(pre_raw, False) if pre_raw else u''
                        wantt = dec_.decode(want, False)
                    if text != wantt:
                        V('C11.interact_read', 'logfile_read during interact() differs from what was copied to the display', log=name)
                if name == 'logfile_send':
                    text = st().join(ws)
                    wantt = got_in if enc is None else codecs.getincrementaldecoder(enc)('replace').decode(got_in, False)
                    if text != wantt:
                        # the send is logged before it is written: if the child died in between, the log
                        # may run ahead of what was delivered, but never beyond what interact() took from the user
                        full = (alts[-1] if (ended_by_escape and alts) else expect_in)
                        fullt = full if enc is None else codecs.getincrementaldecoder(enc)('replace').decode(full, False)
                        if not (kdead and fullt.startswith(text) and len(text) >= len(wantt)):
                            V('C11.interact_send', 'logfile_send during interact() differs from what was forwarded to the child', log=name)
        if late['log'] is not None and res in ('ret', 'HANG'):
            if enc is None:
                want_t = b''.join(late['calls'][late['from']:])
            else:
                # the decoder belongs to the session's output stream as a whole, not to the log: a character whose first
                # bytes came before the log was attached is completed by the bytes that come after
                dec_ = codecs.getincrementaldecoder(enc)('replace')
                if pre_raw and not pre_eof:
                    # (the beginning of a character read before the session belongs to the stream the log transcribes)
                    dec_.decode(pre_raw[len(b''.join(c.encode(enc) for c in getattr(child, 'chunks_at_entry', []))):], False)
                per_call = [dec_.decode(x, False) for x in late['calls']]
                want_t = u''.join(per_call[late['from']:])
            ws_ = late['log'].writes()
            st_ = child.string_type
            if any(type(x) is not st_ for x in ws_):
                V('C11.interact_type', 'a read log attached during interact() received %s' % sorted(set(type(x).__name__ for x in ws_)))
            elif st_().join(ws_) != want_t:
                V('C11.interact_late_log', 'a read log attached from the output filter during interact() holds %d characters, %d were '
                  'copied to the display from that chunk on' % (len(st_().join(ws_)), len(want_t)))
            r.w.probe('log_attached_during_interact')
        # ---- promptness: once the escape character has been typed, the session ends after a bounded number of further reads
        # of child output, however much output is still coming (a flooding child must not starve the keyboard)
        if res == 'ret' and esc is not None and typed_at and not kdead:
            ebyte_ = bytes([esc])
            flt_ = in_f if 'input_filter' in kwargs else (lambda x: x)
            t_e = None
            for tt, dd in typed_at:
                if ebyte_ in flt_(dd):
                    t_e = tt
                    break
            if t_e is not None:
                later = [e for e in w.trace if e[3] == 'read' and e[2] == 'main' and e[1] > t_e and e[1] <= t_ret
                         and isinstance(e[4], tuple) and e[4] and e[4][0] == child_fd_at_entry]
                if len(later) > 6:
                    V('C15.escape_starved', 'the escape character was typed at %.6f s; interact() read child output %d more times '
                      'before it returned at %.6f s' % (t_e / 1e6, len(later), t_ret / 1e6))
                if scn.get('child_out') and scn['child_out'][0].get('rep'):
                    r.w.probe('escape_typed_while_the_child_floods')
        # ---- after the session the pending output has either been consumed by it (shown to the user: gone) or is still
        # pending as a whole; an object whose buffer attribute says 'nothing pending' must not hand the old text back
        if res == 'ret' and pre and scn.get('after_expect') and not pre_eof and not out:
            buf_after = child.buffer
            c0_ = len(child.chunks)
            never_ = u'\x00NEVER\x00' if enc else b'\x00NEVER\x00'
            try:
                child.expect_exact([never_], timeout=0)
            except (TIMEOUT, EOF):
                pass
            except HarnessError:
                raise
            except SimHang:
                pass
            except UnicodeDecodeError:
                pass        # the echo of arbitrary typed bytes is not text in this encoding: the scenario's doing
            new_ = child.string_type().join(child.chunks[c0_:])
            bef_ = child.before
            pre_t = pre_raw.decode(enc, 'ignore') if enc else pre_raw
            if isinstance(bef_, type(new_)) and bef_ != new_ and not buf_after and bef_.endswith(new_) and \
                    pre_t.endswith(bef_[:len(bef_) - len(new_)]) and len(bef_) > len(new_):
                V('C15.pending_again', 'after interact() the buffer attribute was empty, yet the next call handed back %d characters '
                  'of the output that had been pending before the session (and was shown to the user by it)' % (len(bef_) - len(new_)))
            r.w.probe('expect_after_interact_with_real_pending_text')
        # ---- after the session: the object goes back to ordinary use; what interact() left behind (decoder state of its
        # log helper, terminal mode) must not leak into the next operation's transcript
        if res == 'ret' and not kdead and logs and scn.get('after_interact') and not out:
            marks = dict((name, len(lg.writes())) for name, lg in logs.items())
            try:
                child.sendcontrol('g')
                st = child.string_type
                wantc = b'\x07' if enc is None else u'\x07'
                for name, lg in logs.items():
                    new = lg.writes()[marks[name]:]
                    if name in ('logfile_send', 'logfile') and new != [wantc]:
                        V('C11.interact_after', 'sendcontrol after interact(): %s received %r instead of exactly %r' % (name, new, wantc), log=name)
                    if name == 'logfile_read' and new:
                        V('C11.interact_after', 'sendcontrol after interact(): logfile_read received %r' % (new,), log=name)
                r.w.probe('send_after_interact')
            except HarnessError:
                raise
            except SimHang:
                pass
            except Exception as e:
                if r.proc.alive():
                    V('C11.interact_after', 'sendcontrol after interact() raised %s: %s' % (type(e).__name__, e))
        info = collect_info(r)
        info['counters'] = {'typed': len(typed), 'child_wrote': len(child_wrote), 'esc:%s' % scn.get('esc_how'): 1,
                            'ended:%s' % ('dead' if kdead else 'escape'): 1}
        if any(len(harness.b(b['d'])) > 1000 for b in scn.get('bursts', [])):
            r.w.probe('burst_larger_than_one_read')
        if kdead and len(child_wrote) > 1000:
            r.w.probe('exit_with_more_than_one_read_of_output')
        info['probes'] = dict(r.w.probes)
        if prop is not None:
            out = [v for v in out if v.clause.startswith(prop)]
        return out, info
    return harness.run_with(sc, body)
