"""C06 family: transport fidelity.  A writer peer emits bytes and ends; the
driver drains with read_nonblocking / expect(EOF).  Oracle: what was returned,
concatenated, == kernel truth of what reached the descriptor; EOF only after
the last byte; every read <= size; socket timeout left as found.

Two sources of scenarios: bounded complete placement sweeps (the peer's
write / exit placed immediately before every intercepted system call of the
reader) and seeded exploration (torn reads, coalesced writes, tiny pipes,
thread pre-emption, large outputs).
"""
import copy

from . import harness
from .engine import Violation, gen_costs, collect_info, cut, gen_dt, gen_eintr, gen_intr, gen_epoch
from .harness import EOF, TIMEOUT
from .world import SimHang, HarnessError, SimInterrupt

VT_BUDGET_US = 1500000      # virtual time without any progress before giving up


def payload(rng, n):
    if n <= 0:
        return ''
    # non-repeating-ish content so loss/duplication/reordering is visible
    out = []
    i = rng.randrange(1000)
    total = 0
    while total < n:
        x = '%d,' % i
        out.append(x)
        total += len(x)
        i += 1
    return ''.join(out)[:n]


def generate(rng):
    scn = {'family': 'fidelity'}
    tr = rng.choice(['pty'] * 5 + ['fd'] * 2 + ['sock'] * 2 + ['popen'] * 3)
    scn['transport'] = tr
    scn['costs'] = gen_costs(rng)
    scn['maxread'] = rng.choice([1, 2, 7, 100, 2000, 2000, 65536])
    scn['size'] = rng.choice([1, 2, 5, 64, 1000, 2000, 100000])
    scn['mode'] = rng.choice(['rnb', 'rnb', 'expect_eof', 'read_all', 'read_n'])
    scn['T'] = rng.choice([0, 0, 0.0005, 0.01, 0.1, None, -1])
    scn['timeout'] = rng.choice([0.002, 0.05])
    if scn['T'] is None and tr == 'popen':
        scn['T'] = 0.01
    if tr in ('fd', 'pty'):
        scn['use_poll'] = rng.random() < 0.35
    if tr == 'pty':
        scn['eof_flavour'] = rng.choice(['eio', 'eio', 'empty'])
        scn['raw_out'] = rng.random() < 0.6
        if rng.random() < 0.5:
            scn['exit_gap_us'] = rng.choice([1, 50, 1000, 20000])
    if tr == 'popen':
        scn['sched'] = [rng.randint(0, 3) for _ in range(rng.randint(1, 12))]
        scn['delayafterread'] = rng.choice([0.0001, 0.001])
        if rng.random() < 0.3:
            scn['exit_gap_us'] = rng.choice([1, 1000])
    if tr == 'sock':
        scn['sock_timeout'] = rng.choice([None, 0.0, 7.5])
        if rng.random() < 0.4:
            # the application changes the socket's own timeout between reads: that value, not an older one, must survive
            scn['sock_retime'] = [[rng.randint(1, 6), rng.choice([None, 0.0, 0.5, 3.0])] for _ in range(rng.randint(1, 2))]
    if rng.random() < 0.35:
        scn['tear'] = [rng.choice([0, 0, 1, 2, 5, 100]) for _ in range(rng.randint(1, 5))]
    if rng.random() < 0.25:
        scn['cap'] = rng.choice([1, 3, 16, 100, 1024])
    r = rng.random()
    if r < 0.1:
        n = 0
    elif r < 0.6:
        n = rng.randint(1, 60)
    elif r < 0.9:
        n = rng.randint(60, 5000)
    elif r < 0.985:
        n = rng.randint(5000, 70000)
    else:
        n = rng.randint(70000, 300000)
    if min(scn['size'], scn['maxread'] if scn['mode'] != 'rnb' else scn['size']) <= 7 or scn.get('cap', 65536) <= 16:
        n = min(n, 2500)
    if any(0 < t < 50 for t in scn.get('tear', [])):
        n = min(n, 4000)        # every read torn to a few bytes: keep the byte count bounded
    if tr == 'popen' and scn['mode'] == 'rnb' and scn['size'] < 1000:
        n = min(n, 20000)
    data = payload(rng, n)
    if rng.random() < 0.15 and n <= 5000:
        # unicode mode: multi-byte characters cut by reads must neither be lost nor be taken for the end of the stream
        scn['enc'] = 'utf-8'
        data = ''.join((c if rng.random() < 0.8 else rng.choice(u'\xe9€\U0001f600')) for c in data)
        data = data.encode('utf-8').decode('latin-1')
    if tr == 'pty' and not scn.get('raw_out', True):
        data = data.replace(',', '\n') if rng.random() < 0.5 else data
    pieces = cut(rng, data, rng.choice([1, 2, 3, 8, 30]))
    peer = []
    for p in pieces:
        st = {'op': 'w', 'd': p}
        if rng.random() < 0.2:
            st['at'] = [0, rng.randint(1, 40)]
        else:
            st['dt'] = gen_dt(rng)
        peer.append(st)
    end = rng.choice(['exit', 'exit', 'kill']) if tr in ('pty', 'popen') else 'close'
    if tr == 'pty' and rng.random() < 0.1:
        end = 'close_exit'
    st = {'op': 'exit', 'code': rng.choice([0, 1, 255])}
    if end == 'kill':
        st = {'op': 'kill', 'sig': rng.choice([9, 15, 1])}
    elif end == 'close':
        st = {'op': 'close'}
    if rng.random() < 0.3:
        st['at'] = [0, rng.randint(1, 60)]
    else:
        st['dt'] = rng.choice([0, 0, 0, 1, 10, 300, 20000])
    if end == 'close_exit':
        peer.append({'op': 'close', 'dt': st.get('dt', 0)})
        peer.append({'op': 'exit', 'code': 0, 'dt': rng.choice([1, 50, 5000])})
    else:
        peer.append(st)
    scn['peer'] = peer
    scn['pause_us'] = rng.choice([200, 1000, 5000])
    scn['step_cap'] = 500000 if n > 5000 else 200000
    if n > 5000:
        scn['record_sites'] = False
    gen_eintr(rng, scn)
    gen_intr(rng, scn, p=0.08, nmax=12)
    gen_epoch(rng, scn, 0.2)
    return scn


# ------------------------------------------------------------- enumeration
def base_scenarios(seed):
    """Small base scenarios for the complete placement sweep."""
    import random
    rng = random.Random('C06-enum:%d' % seed)
    out = []
    for tr in ('pty', 'pty', 'fd', 'sock', 'popen'):
        for T in (0, 0.003, -1):
            for size in (1, 3, 2000):
                scn = {'family': 'fidelity', 'transport': tr, 'costs': [3], 'maxread': 2000, 'size': size,
                       'mode': 'rnb', 'T': T, 'timeout': 0.004, 'pause_us': 300, 'step_cap': 60000}
                if tr in ('fd', 'pty'):
                    scn['use_poll'] = rng.random() < 0.5
                if tr == 'pty':
                    scn['eof_flavour'] = rng.choice(['eio', 'empty'])
                if tr == 'popen':
                    scn['sched'] = [rng.randint(0, 2) for _ in range(5)]
                    scn['delayafterread'] = 0.0002
                if tr == 'sock':
                    scn['sock_timeout'] = rng.choice([None, 0.0, 7.5])
                out.append(scn)
    return out


def count_calls(scn):
    """How many intercepted calls the reader makes in op 0 of this scenario."""
    res = {}

    def body(r):
        r.make_child()
        _drain(r, scn)
        res['n'] = r.w.op_sys
    s = copy.deepcopy(scn)
    harness.run_with(s, body)
    return res['n']


def enumerate_scenarios(tier, seed):
    out = []
    gaps = [0, 700] if tier == 'quick' else [0, 1, 700, 15000]
    for base in base_scenarios(seed):
        tr = base['transport']
        endop = {'op': 'exit', 'code': 5} if tr in ('pty', 'popen') else {'op': 'close'}
        # reference run: data arrives at t=20us, end at 3 ms: how many calls does the reader make?
        ref = dict(base)
        ref['peer'] = [{'op': 'w', 'd': 'abcde', 'dt': 20}, dict(endop, dt=3000)]
        try:
            N = min(count_calls(ref), 90 if tier == 'quick' else 160)
        except Exception:
            continue
        for n in range(1, N + 1):
            for shape in ('w_exit', 'w', 'exit_after_w'):
                if shape == 'w_exit':
                    peer = [{'op': 'w', 'd': 'abcde', 'at': [0, n]}, dict(endop, dt=0)]
                elif shape == 'w':
                    peer = [{'op': 'w', 'd': 'ab', 'dt': 5}, {'op': 'w', 'd': 'cde', 'at': [0, n]}, dict(endop, dt=2500)]
                else:
                    peer = [{'op': 'w', 'd': 'abcde', 'dt': 5}, dict(endop, at=[0, n])]
                for gap in (gaps if tr in ('pty', 'popen') else [0]):
                    s = dict(base)
                    s['peer'] = peer
                    if gap:
                        s['exit_gap_us'] = gap
                    s['enum'] = [shape, n, gap]
                    out.append(s)
    # every interleaving choice of the baton scheduler (main thread vs PopenSpawn's reader thread) up to a bounded
    # length, for a child that writes 1500 bytes in two pieces (more than one 1024-byte thread read) and exits
    import itertools
    L = 7 if tier == 'quick' else 10
    for size in (1, 700, 2000):
        for T in (0, 0.002):
            for bits in itertools.product((0, 1), repeat=L):
                out.append({'family': 'fidelity', 'transport': 'popen', 'costs': [3], 'maxread': 2000, 'size': size, 'mode': 'rnb',
                            'T': T, 'timeout': 0.004, 'pause_us': 300, 'step_cap': 60000, 'delayafterread': 0.0002,
                            'sched': list(bits),
                            'peer': [{'op': 'w', 'd': payload_fixed(900), 'dt': 10}, {'op': 'w', 'd': payload_fixed(600), 'dt': 40},
                                     {'op': 'exit', 'code': 0, 'dt': 30}],
                            'enum': ['sched', size, T]})
    return out


def payload_fixed(n):
    return ''.join('%d,' % i for i in range(1000, 1000 + n))[:n]


# ------------------------------------------------------------------ running
def _drain(r, scn):
    """Op 0: read until EOF (or the virtual-time budget).  Returns the list
    of read results and how it ended."""
    w = r.w
    child = r.child
    w.begin_op(0)
    w.note('op', (0, 'drain'))
    reads = []
    ended = None
    budget = scn.get('vt_budget_us', VT_BUDGET_US)
    state = {'ended_at': None, 't0': w.now, 'seen': 0}

    def stalled():
        # give up only once the stream has really ended (kernel truth) and
        # EOF still has not come `budget` later; or, inconclusively, when the
        # peer itself never finishes
        n = sum(1 for c in child.chunks[state['seen']:] if len(c))
        state['seen'] = len(child.chunks)
        if stream_ended(r) and (state['ended_at'] is None or n):
            state['ended_at'] = w.now        # (re)start the clock at every sign of progress
        if state['ended_at'] is not None:
            return w.now > state['ended_at'] + budget
        if w.now > state['t0'] + 100 * budget:
            state['stuck'] = True
            return True
        return False
    r.drain_state = state
    mode = scn.get('mode', 'rnb')
    T = scn.get('T', 0)
    size = scn.get('size', 1)
    sock0 = r.sock.gettimeout() if r.sock is not None else None
    r.sock_bad = None
    retime = dict((int(a), b) for a, b in scn.get('sock_retime', [])) if r.sock is not None else {}
    ncalls = 0
    if mode == 'rnb':
        while True:
            ncalls += 1
            if ncalls in retime:
                r.sock.settimeout(retime[ncalls])
                sock0 = r.sock.gettimeout()
            try:
                w.intr_armed = True
                try:
                    s = child.read_nonblocking(size, T)
                finally:
                    w.intr_armed = False
            except EOF:
                ended = 'EOF'
                break
            except TIMEOUT:
                s = None
            except SimInterrupt:
                s = None          # abandoned from outside while it waited: nothing was returned, nothing may be lost
                w.probe('read_interrupted_from_outside')
            if r.sock is not None and r.sock.gettimeout() != sock0 and r.sock_bad is None:
                r.sock_bad = (sock0, r.sock.gettimeout())
            if s is None or len(s) == 0:
                if stalled():
                    ended = 'budget'
                    break
                w.sleep(scn.get('pause_us', 500))
                continue
            reads.append(s)
    elif mode == 'read_n':
        # the application first looks for a banner that never comes (a bounded search that times out and trims the search
        # buffer), then takes the stream apart with read(size)
        never = u'\x00NEVER\x00' if child.encoding else b'\x00NEVER\x00'
        pre_eof = False
        try:
            child.expect_exact([never], timeout=(T if isinstance(T, (int, float)) and T > 0 else 0.002))
        except TIMEOUT:
            pass
        except EOF:
            reads.append(child.before)       # the stream ended during the search: everything is handed back here
            pre_eof = True
        n_ = max(1, min(int(size), 4096))
        if len(_truth(r)) // n_ > 3000:
            n_ = max(n_, len(_truth(r)) // 3000 + 1)
        empties = 0
        while True:
            if pre_eof:
                ended = 'EOF'
                break
            timed_out = False
            try:
                s = child.read(n_)
            except TIMEOUT:
                s = child.string_type()       # nothing handed back: what was read stays pending for the next read()
                timed_out = True
            except EOF:
                ended = 'EOF'
                break
            if len(s):
                reads.append(s)
                empties = 0
                continue
            if not timed_out and getattr(child, 'flag_eof', False):
                ended = 'EOF'       # read() RETURNED nothing: the end of the stream, nothing left
                break
            empties += 1
            if stalled():
                ended = 'budget'
                break
            w.sleep(scn.get('pause_us', 500))
        reads = [child.string_type().join(reads)]
    else:
        acc = child.string_type()
        while True:
            try:
                w.intr_armed = True
                try:
                    if mode == 'expect_eof':
                        child.expect(EOF, timeout=T)
                        acc += child.before
                    else:
                        acc += child.read()
                finally:
                    w.intr_armed = False
                ended = 'EOF'
                break
            except SimInterrupt:
                # what the abandoned call had read stays pending and comes back from the next call
                w.probe('read_interrupted_from_outside')
                if r.sock is not None and r.sock.gettimeout() != sock0 and r.sock_bad is None:
                    r.sock_bad = (sock0, r.sock.gettimeout())
                if stalled():
                    ended = 'budget'
                    break
            except TIMEOUT:
                if stalled():
                    acc += child.before
                    ended = 'budget'
                    break
                w.sleep(scn.get('pause_us', 500))
            except EOF:
                acc += child.before
                ended = 'EOF'
                break
        if r.sock is not None and r.sock.gettimeout() != sock0:
            r.sock_bad = (sock0, r.sock.gettimeout())
        reads = [acc]
    return reads, ended


def run(scn):
    if scn.get('maxread', 1) < 1 or scn.get('size', 1) < 1:
        raise HarnessError('degenerate read size')

    def body(r):
        child = r.make_child()
        out = []
        try:
            reads, ended = _drain(r, scn)
        except SimHang as e:
            reads, ended = None, 'HANG'
            exc = e
        except HarnessError:
            raise
        except Exception as e:
            out.append(Violation('C06.exception', 'drain raised %s: %s' % (type(e).__name__, e),
                                 harness._tb_site(e), {'transport': scn['transport']}))
            info = collect_info(r)
            return out, info
        if ended == 'HANG':
            if scn.get('T') is None:
                # blocking read with a peer that ... every scenario here ends, so a hang is a finding
                pass
            out.append(Violation('C06.hang', 'reader never saw EOF: %s' % exc, None, {'transport': scn['transport']}))
            return out, collect_info(r)
        st = child.string_type
        got = st().join(reads) if reads else st()
        if isinstance(got, str):
            got = got.encode(scn.get('enc') or 'latin-1')
        want = _truth(r)
        det = {'transport': scn['transport'], 'mode': scn.get('mode'), 'T': scn.get('T'), 'size': scn.get('size'),
               'ended': ended, 'got_len': len(got), 'want_len': len(want), 'enum': scn.get('enum')}
        if ended == 'EOF':
            if got != want:
                i = 0
                while i < min(len(got), len(want)) and got[i] == want[i]:
                    i += 1
                kind = 'lost_tail' if want.startswith(got) else ('duplicated' if len(got) > len(want) else 'corrupted')
                det.update(first_diff=i, got=got[max(0, i - 10):i + 20], want=want[max(0, i - 10):i + 20])
                out.append(Violation('C06.%s' % kind, 'EOF after %d of %d bytes (%s at offset %d)'
                                     % (len(got), len(want), kind, i), _eof_site(r), det))
        elif ended == 'budget' and r.drain_state.get('stuck'):
            r.w.probe('inconclusive_peer_never_ended')
        elif ended == 'budget':
            out.append(Violation('C06.no_eof', 'no progress and no EOF for %.1f virtual s after the peer ended (%d of %d bytes read)'
                                 % (scn.get('vt_budget_us', VT_BUDGET_US) / 1e6, len(got), len(want)), None, det))
        if scn.get('mode', 'rnb') == 'rnb' and reads:
            big = [len(x) for x in reads if len(x) > scn.get('size', 1)]
            if big:
                out.append(Violation('C06.oversize', 'a read returned %d > size %d' % (big[0], scn.get('size', 1)), None, det))
        if r.sock_bad is not None:
            out.append(Violation('C06.socket_timeout', 'socket timeout changed from %r to %r' % r.sock_bad, None, det))
        info = collect_info(r)
        info['counters'] = {'tr:%s' % scn['transport']: 1, 'bytes': len(want), 'ended:%s' % ended: 1,
                            'enum': 1 if scn.get('enum') else 0}
        if len(want) >= 70000:
            r.w.probe('output_ge_70KB')
        info['probes'] = dict(r.w.probes)
        return out, info
    return harness.run_with(scn, body)


def stream_ended(r):
    tr = r.scn['transport']
    if tr == 'pty':
        return r.pty.hung_up()
    if tr == 'sock':
        return r.sock._end.rx.wr_closed
    if tr == 'popen':
        return r.popen_out.p.writers == 0
    return r.fd_pipe.p.writers == 0


def _truth(r):
    tr = r.scn['transport']
    if tr == 'pty':
        return bytes(r.pty.out_log)
    if tr == 'sock':
        return bytes(r.sock._end.rx.log)
    if tr == 'popen':
        return bytes(r.popen_out.p.log)
    return bytes(r.fd_pipe.p.log)


def _eof_site(r):
    """Where the EOF came from: last CUT call sites before the end."""
    for e in reversed(r.w.trace):
        seq, t, thr, name, args, res, site = e
        if thr == 'main' and site is not None:
            return '%s@%s.%s' % (name, site[0].replace('.py', ''), site[1])
    return None
