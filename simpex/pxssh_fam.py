"""C17 family: pxssh.login() against a scripted ssh client/server dialogue."""
import os
import re
import signal

import pexpect
from pexpect import pxssh as pxmod

from . import harness
from . import peers
from . import shim
from . import transports as T
from .engine import Violation, gen_costs, collect_info
from .harness import EOF, TIMEOUT
from .kernel import ECHO, ICANON
from .world import SimHang, HarnessError

PASSWORD = 'S3cr3t-pw'
EPS_US = 1500000

TEXTS = {
    'hostkey': "The authenticity of host 'h (10.0.0.1)' can't be established.\r\nECDSA key fingerprint is SHA256:abc.\r\n"
               "Are you sure you want to continue connecting (yes/no)? ",
    'password': "user@h's password: ",
    'passphrase': "Enter passphrase for key '/home/u/.ssh/id_rsa': ",
    'denied': "Permission denied, please try again.\r\n",
    'termtype': "Terminal type? ",
    'closed': "Connection closed by remote host.\r\n",
}
BANNERS_L1 = ['Gr\xfc\xdfe von h\xf6st\r\n', 'ssh: connect to host caf\xe9 port 22: Connection refused\r\n', '\xff\xfe motd\r\n']
BANNERS = ['Last login: Mon Jan 1 00:00:00 2024 from 10.0.0.2\r\n', 'Welcome!\r\n',
           'Disk quota: 5# of 10 used\r\n', 'Price list: 5$ per hour\r\n', 'motd ### maintenance ###\r\n', '\r\n']
ORIG_PROMPTS = {'sh': 'user@h:~$ ', 'csh': 'h# ', 'zsh': 'h$ '}


def generate(rng):
    scn = {'family': 'pxssh', 'transport': 'pty'}
    scn['costs'] = gen_costs(rng)
    scn['enc'] = rng.choice([None, None, 'utf-8'])
    script = []
    n = rng.choice([1, 2, 2, 3, 3, 4, 5, 8])
    kinds = ['hostkey', 'password', 'password', 'passphrase', 'denied', 'termtype', 'banner', 'banner', 'silence',
             'close', 'closed', 'exit', 'shell', 'shell', 'shell']
    for i in range(n):
        kd = rng.choice(kinds)
        st = {'k': kd}
        if kd == 'banner':
            st['text'] = rng.choice(BANNERS)
            if scn['enc'] is None and rng.random() < 0.3:
                st['text'] = rng.choice(BANNERS_L1)      # a Latin-1 host name / message: bytes mode must cope with any bytes
        if kd == 'silence':
            st['dt'] = rng.choice([200000, 2000000, 12000000, 40000000])
        st['delay'] = rng.choice([0, 100, 3000, 300000])
        script.append(st)
        if kd in ('close', 'closed', 'exit', 'shell'):
            break
    if rng.random() < 0.55 and (not script or script[-1]['k'] not in ('close', 'closed', 'exit', 'shell')):
        script.append({'k': 'shell', 'delay': rng.choice([0, 100, 3000])})
    scn['script'] = script
    scn['flavour'] = rng.choice(['sh', 'sh', 'csh', 'zsh'])
    scn['opts'] = {
        'auto_prompt_reset': rng.random() < 0.8,
        'sync_original_prompt': rng.random() < 0.7,
        'quiet': rng.random() < 0.5,
        'login_timeout': rng.choice([1, 10]),
        'sync_multiplier': rng.choice([1, 1, 0.5, 2]),
    }
    if rng.random() < 0.2:
        scn['opts']['ssh_key'] = rng.choice([True, 'KEYFILE'])      # the agent socket, or a private key file (resolved at run time)
    if rng.random() < 0.2:
        scn['opts']['port'] = 2222
    scn['timeout'] = rng.choice([2, 30])
    scn['cmds'] = [{'n': rng.choice([0, 5, 80, 700]), 's': rng.randrange(100)} for _ in range(rng.randint(0, 3))]
    if rng.random() < 0.3:
        scn['tear'] = [rng.choice([0, 1, 5, 40]) for _ in range(rng.randint(1, 4))]
    scn['shell_latency'] = rng.choice([1, 50, 2000, 40000])
    scn['hang_cmd'] = rng.random() < 0.3
    if rng.random() < 0.15:
        scn['retry_login'] = True        # after a failed login the application tries again on the same object
    # ssh normally leaves the local terminal without echo and lets the remote side echo; a stuck remote then echoes nothing
    scn['session_echo'] = rng.random() < 0.65
    # type-ahead: two commands are sent before the first prompt() is called (their outputs may arrive in one burst)
    scn['type_ahead'] = rng.random() < 0.3
    if scn['type_ahead']:
        scn['cmds'] = [{'n': rng.choice([0, 5, 80]), 's': rng.randrange(100)}, {'n': rng.choice([5, 700, 1200, 1900]), 's': rng.randrange(100)}]
        scn['shell_latency'] = rng.choice([1, 50])
        if rng.random() < 0.5:
            # the first prompt lands near a maxread (2000) boundary of the queued output and at least one more full read
            # follows it: full-size reads are where a search window / look-back shortcut in prompt() would lose it
            s1, n2, s2 = rng.randrange(100), rng.choice([2300, 4300, 6100]), rng.randrange(100)
            n1 = rng.randint(1650, 2050)
            if rng.random() < 0.6:
                # aim: the stream since the two lines were typed is [echo of both lines] answer-1 PROMPT answer-2 PROMPT;
                # put the first PROMPT so that it starts 1..10 characters before a multiple of 2000
                k = rng.choice([1, 1, 2])
                target = 2000 * k - rng.randint(1, 10)
                full = payload(2000 * k, s1)
                ln = 2
                for n1 in range(1, 2000 * k):
                    ln += 2 if full[n1 - 1] == '\n' else 1
                    echo = (len('echo %d %d' % (n1, s1)) + len('echo %d %d' % (n2, s2)) + 4) if scn['session_echo'] else 0
                    if echo + ln >= target:
                        break
            scn['cmds'] = [{'n': n1, 's': s1}, {'n': n2, 's': s2}]
    scn['hup_write'] = rng.choice(['ok', 'ok', 'ok', 'eio'])
    scn['reprompt'] = rng.random() < 0.3
    scn['vt_cap_s'] = 2000
    scn['step_cap'] = 300000
    return scn


def payload(n, seed):
    x = seed * 31 + 7
    out = []
    al = 'abcdefgh ijk\n'
    while len(out) < n:
        x = (x * 1103515245 + 12345) & 0x7fffffff
        out.append(al[x % len(al)])
    return ''.join(out)


def run(scn):
    sc = dict(scn)
    enc = scn.get('enc')

    def body(r):
        w, k = r.w, r.k
        tr = {'answers': [], 'state': 'pre', 'prompt': None, 'prompt_set_by': None, 'cmds': [], 'marks': [],
              'out_since_input': b'', 'inputs': []}
        flavour = scn.get('flavour', 'sh')

        def ssh_gen(a):
            slave = a.proc.handles[0]
            pty = slave.pty
            buf = [b'']

            def say(text):
                # the terminal's ONLCR supplies the carriage returns
                d = text.replace('\r\n', '\n').encode('latin-1')
                tr['out_since_input'] += d
                return ('write', slave, d)


            def readline():
                while b'\n' not in buf[0]:
                    d = yield ('read', slave, 4096)
                    if not d:
                        return None
                    buf[0] += d
                line, _, rest = buf[0].partition(b'\n')
                buf[0] = rest
                tr['inputs'].append((tr['state'], line, tr['out_since_input']))
                tr['out_since_input'] = b''
                return line
            local_echo = scn.get('session_echo', True)
            if not local_echo:
                pty.attr[3] &= ~ECHO
            try:
                for st in scn.get('script', []):
                    if st.get('delay'):
                        yield ('sleep', st['delay'])
                    kd = st['k']
                    tr['state'] = kd
                    if kd == 'silence':
                        yield ('sleep', st.get('dt', 1000000))
                    elif kd in ('hostkey', 'password', 'passphrase', 'termtype'):
                        if kd in ('password', 'passphrase'):
                            pty.attr[3] &= ~ECHO
                        yield say(TEXTS[kd])
                        line = yield from readline()
                        if local_echo:
                            pty.attr[3] |= ECHO
                        if line is None:
                            yield ('exit', 255)
                            return
                        tr['answers'].append((kd, line))
                        if kd in ('password', 'passphrase'):
                            yield say('\r\n')
                    elif kd == 'denied':
                        yield say(TEXTS['denied'])
                    elif kd == 'banner':
                        yield say(st.get('text', 'Welcome\r\n'))
                    elif kd == 'closed':
                        yield say(TEXTS['closed'])
                        yield ('exit', 255)
                        return
                    elif kd == 'close':
                        yield ('close', slave)
                        yield ('sleep', 50000)
                        yield ('exit', 255)
                        return
                    elif kd == 'exit':
                        yield ('exit', 255)
                        return
                    elif kd == 'shell':
                        tr['state'] = 'shell'
                        prompt = ORIG_PROMPTS[flavour]
                        tr['prompt'] = prompt
                        while True:
                            tr['marks'].append(('prompt_start', pty.out_total))
                            yield say(prompt)
                            tr['marks'].append(('prompt_end', pty.out_total))
                            line = yield from readline()
                            if line is None:
                                yield ('exit', 0)
                                return
                            if not local_echo:
                                yield say(line.decode('latin-1') + '\n')       # the remote terminal echoes what was typed
                            yield ('sleep', scn.get('shell_latency', 1))
                            ln = line.decode('latin-1').strip()
                            tr['cmds'].append(ln)
                            if ln == '':
                                continue
                            if ln == 'unset PROMPT_COMMAND':
                                continue
                            if ln == "PS1='[PEXPECT]\\$ '":
                                if flavour == 'sh':
                                    prompt = '[PEXPECT]$ '
                                    tr['prompt_set_by'] = 'sh'
                                elif flavour == 'zsh':
                                    prompt = '[PEXPECT]\\$ '
                                else:
                                    yield say("PS1=[PEXPECT]\\$ : Command not found.\r\n")
                                tr['prompt'] = prompt
                                continue
                            if ln == "set prompt='[PEXPECT]\\$ '":
                                if flavour == 'csh':
                                    prompt = '[PEXPECT]$ '
                                    tr['prompt_set_by'] = 'csh'
                                tr['prompt'] = prompt
                                continue
                            if ln == 'prompt restore;':
                                if flavour != 'zsh':
                                    yield say('prompt: command not found\r\n')
                                continue
                            if ln == "PS1='[PEXPECT]%(!.#.$) '":
                                if flavour == 'zsh':
                                    prompt = '[PEXPECT]$ '
                                    tr['prompt_set_by'] = 'zsh'
                                elif flavour == 'sh':
                                    prompt = '[PEXPECT]%(!.#.$) '
                                tr['prompt'] = prompt
                                continue
                            m = re.match(r"PS1='([^']*)'$", ln)
                            if m and flavour == 'sh':
                                prompt = m.group(1).replace('\\$', '$')
                                tr['prompt'] = prompt
                                continue
                            m = re.match(r'echo (\d+) (\d+)$', ln)
                            if m:
                                text = payload(int(m.group(1)), int(m.group(2)))
                                yield say(text.replace('\n', '\r\n') + '\r\n')
                                continue
                            if ln == 'hang':
                                yield ('sleep', 120000000)
                                continue
                            if ln == 'exit':
                                yield say('logout\r\n')
                                yield ('exit', 0)
                                return
                            yield say('%s: command not found\r\n' % ln.split()[0])
                # script ran out without shell or end: stay silent
                tr['state'] = 'silent'
                while True:
                    line = yield from readline()
                    if line is None:
                        yield ('exit', 255)
                        return
            except OSError:
                return

        def factory(proc, slave, pty):
            r.proc, r.pty = proc, pty
            proc.disp[signal.SIGHUP] = 'ign'     # pxssh spawns with ignore_sighup=True
            return peers.Actor(w, k, proc, ssh_gen, 1, 'ssh')
        w.child_setup = T.default_child_setup(w, factory)
        out = []

        def V(clause, msg, **d):
            # how many prompt-setting attempts the client has typed so far (whoever ended up reading them)
            typed = bytes(r.pty.in_log) + bytes(r.pty.discard_log)
            nset = typed.count(b"PS1='[PEXPECT]") + typed.count(b"set prompt='[PEXPECT]")
            gaps_ = [b_ - a_ for a_, b_ in zip(set_times, set_times[1:])]
            d.update(fallback_typed_after_s=(min(gaps_) / 1e6 if gaps_ else None))
            d.update(script=[s['k'] for s in scn.get('script', [])], opts=scn.get('opts'), flavour=flavour,
                     session_echo=scn.get('session_echo', True),
                     prompt_setting_commands_received=nset, server_state=tr['state'],
                     set_unique_prompt_returned=(sup_results[-1] if sup_results else None))
            out.append(Violation(clause, msg, d.pop('site', None), d))
        s = T.SimPxssh(timeout=scn.get('timeout', 30), encoding=enc)
        r.child = s
        sup_results = []
        sup_orig = s.set_unique_prompt

        def sup_recorded(*a, **kw):
            res_ = sup_orig(*a, **kw)
            sup_results.append(bool(res_))
            return res_
        s.set_unique_prompt = sup_recorded
        set_times = []        # when the client typed each prompt-setting attempt
        sl_orig = s.sendline

        def sendline_recorded(line='', *a, **kw):
            t_ = line if isinstance(line, str) else bytes(line).decode('latin-1')
            if t_.startswith("PS1='[PEXPECT]") or t_.startswith("set prompt='[PEXPECT]"):
                set_times.append(w.now)
            return sl_orig(line, *a, **kw)
        s.sendline = sendline_recorded
        w.begin_op(0)
        w.note('op', (0, 'login'))
        opts = dict(scn.get('opts', {}))
        if opts.get('ssh_key') == 'KEYFILE':
            opts['ssh_key'] = os.path.abspath(__file__)              # any existing regular file will do for `-i`
        t0 = w.now
        res = None
        exc = None
        try:
            res = s.login('simhost', 'user', PASSWORD, cmd='/bin/simssh', **opts)
        except SimHang as e:
            exc = e
        except HarnessError:
            raise
        except Exception as e:
            exc = e
        dur = w.now - t0
        # ------------------------------------------------------------ oracle
        pw = PASSWORD.encode()
        pw_lines = [x for x in tr['inputs'] if pw in x[1]]
        pw_anywhere = bytes(r.pty.in_log).count(pw)
        if pw_anywhere > 1:
            V('C17.password_twice', 'the password was sent %d times' % pw_anywhere)
        for state, line, before_out in tr['inputs']:
            if pw in line:
                if not re.search(br'(?i)(password:)|(passphrase for key)', before_out):
                    V('C17.password_unasked', 'the password was sent while the server was in state %r; its output since the previous '
                      'input contains no password/passphrase prompt' % state, since=before_out[-80:])
            if line.strip() == b'yes':
                if not re.search(br'(?i)are you sure you want to continue connecting', before_out):
                    V('C17.yes_unasked', "'yes' was sent in state %r without a host-key question" % state, since=before_out[-80:])
        if pw_anywhere == 1 and not pw_lines and tr['state'] not in ('silent',) and not out:
            # sent but never read by the server as a line of its own: it went to a server that was not asking
            if r.proc.alive():
                V('C17.password_unasked', 'the password was written while the server (state %r) was not reading a secret' % tr['state'])
        bound = (opts.get('login_timeout', 10) + 3 * scn.get('timeout', 30) + 12 * opts.get('sync_multiplier', 1) + 30) * 1e6 + EPS_US
        if isinstance(exc, SimHang):
            V('C17.hang', 'login() never returned: %s' % exc)
        elif exc is not None and not isinstance(exc, pexpect.ExceptionPexpect):
            V('C17.exception_type', 'login() raised %s: %s' % (type(exc).__name__, str(exc)[:200]), site=harness._tb_site(exc))
            out[-1].site = harness._tb_site(exc)
        elif dur > bound:
            V('C17.overrun', 'login() took %.1f virtual s, configured timeouts add up to %.1f' % (dur / 1e6, bound / 1e6))
        if exc is None and res is not True:
            V('C17.return', 'login() returned %r' % (res,))
        if scn.get('retry_login') and isinstance(exc, pexpect.ExceptionPexpect) and not out:
            # the application tries again on the SAME object after a failed login.  The unchanged tree refuses that
            # (AssertionError: the object is not re-usable), which is not judged; a tree that accepts it starts a new
            # dialogue, and what it types into that one is held to the same rules -- nothing left over from the first
            # dialogue may be answered
            n_in0 = len(tr['inputs'])
            old_pty = r.pty
            exc2, res2 = None, None
            try:
                w.begin_op(50)
                res2 = s.login('simhost', 'user', PASSWORD, cmd='/bin/simssh', **opts)
            except AssertionError:
                r.w.probe('second_login_on_the_same_object_refused')
            except (SimHang, HarnessError):
                raise
            except Exception as e2:
                exc2 = e2
            if r.pty is not old_pty:
                r.w.probe('second_login_on_the_same_object_started_a_new_dialogue')
                pw2 = bytes(r.pty.in_log).count(pw)
                if pw2 > 1:
                    V('C17.password_twice', 'second login on the same object: the password was sent %d times' % pw2)
                for state, line, before_out in tr['inputs'][n_in0:]:
                    if pw in line and not re.search(br'(?i)(password:)|(passphrase for key)', before_out):
                        V('C17.password_unasked', 'second login on the same object: the password was sent while the new server was in '
                          'state %r; it had printed no password/passphrase prompt (text left over from the first dialogue was answered)'
                          % state, since=before_out[-80:])
                    if line.strip() == b'yes' and not re.search(br'(?i)are you sure you want to continue connecting', before_out):
                        V('C17.yes_unasked', "second login on the same object: 'yes' was sent in state %r without a host-key question"
                          % state, since=before_out[-80:])
            res = None      # (nothing further is judged after a retry)
        if res is True and not out:
            if tr['state'] != 'shell':
                V('C17.silent_success', 'login() returned True but the server never reached a shell (state %r)' % tr['state'])
            elif opts.get('auto_prompt_reset', True) and tr['prompt'] != '[PEXPECT]$ ':
                V('C17.silent_success', 'login() returned True with prompt reset enabled but the shell prompt is %r' % tr['prompt'])
        # after a successful login with the unique prompt: prompt() delimits each command's output exactly
        if res is True and not out and opts.get('auto_prompt_reset', True) and scn.get('type_ahead') and len(scn.get('cmds', [])) == 2:
            c1, c2 = scn['cmds']
            cmd1, cmd2 = 'echo %d %d' % (c1['n'], c1['s']), 'echo %d %d' % (c2['n'], c2['s'])
            try:
                w.begin_op(1)
                mark = len(r.pty.out_log)
                s.sendline(cmd1)
                s.sendline(cmd2)
                w.sleep(300000)                 # the caller is slow: both answers are waiting
                ok1 = s.prompt(timeout=20)
                b1 = s.before
                ok2 = s.prompt(timeout=20)
                b2 = s.before
                tob = lambda x: x if isinstance(x, bytes) else x.encode('latin-1')
                # kernel truth: what the terminal emitted since the two lines were typed, cut at the prompts
                stream = bytes(r.pty.out_log)[mark:]
                segs = stream.split(b'[PEXPECT]$ ')
                want1 = segs[0].decode('latin-1') if len(segs) > 0 else ''
                want2 = segs[1].decode('latin-1') if len(segs) > 1 else ''
                t1 = payload(c1['n'], c1['s']).replace('\n', '\r\n') + '\r\n'
                t2 = payload(c2['n'], c2['s']).replace('\n', '\r\n') + '\r\n'
                if t1 not in want1 or t2 not in want2:
                    V('C17.prompt', 'type-ahead: the prompts after login do not line up with the commands (left-over prompts from the login phase)',
                      segs=[x[-40:] for x in segs[:4]])
                if out:
                    pass
                elif not (ok1 and ok2):
                    V('C17.prompt', 'type-ahead: prompt() returned %r then %r for two answered commands' % (ok1, ok2))
                elif tob(b1) != want1.encode('latin-1') or tob(b2) != want2.encode('latin-1'):
                    V('C17.prompt', 'type-ahead: prompt() did not delimit the two commands\' outputs exactly',
                      got=[tob(b1)[-60:], tob(b2)[-60:]], want=[want1[-60:], want2[-60:]], lens=[len(tob(b1)), len(want1), len(tob(b2)), len(want2)])
            except (SimHang, pexpect.ExceptionPexpect, OSError) as e:
                V('C17.prompt', 'type-ahead commands after login failed: %s %s' % (type(e).__name__, str(e)[:120]))
        elif res is True and not out and opts.get('auto_prompt_reset', True):
            for kx, c in enumerate(scn.get('cmds', [])):
                w.begin_op(kx + 1)
                cmd = 'echo %d %d' % (c['n'], c['s'])
                try:
                    m0 = len(tr['marks'])
                    s.sendline(cmd)
                    ok = s.prompt(timeout=20)
                    got = s.before
                except (SimHang, pexpect.ExceptionPexpect, OSError) as e:
                    V('C17.prompt', 'command after login failed: %s %s' % (type(e).__name__, str(e)[:120]))
                    break
                if not ok:
                    V('C17.prompt', 'prompt() timed out after %r' % cmd)
                    break
                text = payload(c['n'], c['s']).replace('\n', '\r\n') + '\r\n'
                want = (cmd + '\r\n' + text)
                gotb = got if isinstance(got, bytes) else got.encode('latin-1')
                if gotb != want.encode('latin-1'):
                    V('C17.prompt', 'before after prompt() is not exactly the echoed command and its output', got=gotb[-80:], want=want[-80:])
                    break
                if kx == 0 and scn.get('reprompt') and flavour == 'sh':
                    # the application changes the remote prompt itself and tells the object through the public PROMPT
                    # attribute (documented): prompt() must follow
                    try:
                        # (like pxssh's own unique prompt, the command that sets it does not contain it literally)
                        s.sendline("PS1='NEWP\\$ '")
                        s.PROMPT = 'NEWP\\$ '
                        if not s.prompt(timeout=20):
                            V('C17.prompt', 'prompt() timed out after the application assigned a new PROMPT and the shell printed it')
                            break
                        r.w.probe('prompt_attribute_reassigned')
                    except (SimHang, pexpect.ExceptionPexpect, OSError) as e:
                        V('C17.prompt', 'prompt() after PROMPT was reassigned failed: %s %s' % (type(e).__name__, str(e)[:120]))
                        break
            if not out and scn.get('hang_cmd'):
                try:
                    s.sendline('hang')
                    ok = s.prompt(timeout=1)
                    if ok is not False:
                        V('C17.prompt', 'prompt() returned %r although the shell printed no prompt within the timeout' % (ok,))
                except (SimHang, pexpect.ExceptionPexpect, OSError) as e:
                    V('C17.prompt', 'prompt() on a silent shell raised %s' % type(e).__name__)
        info = collect_info(r)
        info['counters'] = {'result:%s' % ('True' if res is True else type(exc).__name__): 1, 'state:%s' % tr['state']: 1,
                            'flavour:%s' % flavour: 1, 'script_len': len(scn.get('script', []))}
        if pw_anywhere:
            r.w.probe('password_sent')
        if res is True:
            r.w.probe('login_succeeded')
        info['probes'] = dict(r.w.probes)
        return out, info
    return harness.run_with(sc, body)
