"""Virtual-time asyncio: CPython's real selector event loop and
_UnixReadPipeTransport over sim descriptors.  Only the selector and the clock
are replaced; one loop iteration = SimSelector.select() + asyncio's own ready
callbacks, in asyncio's own order.
"""
import asyncio
import asyncio.unix_events
import selectors

from . import shim
from .kernel import FD_BASE


class SimSelector(selectors.BaseSelector):
    def __init__(self):
        self._keys = {}

    def register(self, fileobj, events, data=None):
        fd = fileobj if isinstance(fileobj, int) else fileobj.fileno()
        if fd in self._keys:
            raise KeyError('%r is already registered' % (fileobj,))
        key = selectors.SelectorKey(fileobj, fd, events, data)
        self._keys[fd] = key
        return key

    def unregister(self, fileobj):
        fd = fileobj if isinstance(fileobj, int) else fileobj.fileno()
        return self._keys.pop(fd)

    def modify(self, fileobj, events, data=None):
        fd = fileobj if isinstance(fileobj, int) else fileobj.fileno()
        key = selectors.SelectorKey(fileobj, fd, events, data)
        self._keys[fd] = key
        return key

    def get_key(self, fileobj):
        fd = fileobj if isinstance(fileobj, int) else fileobj.fileno()
        return self._keys[fd]

    def get_map(self):
        return self._keys

    def close(self):
        self._keys.clear()

    def _ready(self):
        out = []
        K = shim.K
        for fd, key in self._keys.items():
            if fd < FD_BASE and fd not in K.low:
                continue            # asyncio's self-pipe: nothing ever arrives
            K.touch(fd, 'aselect')       # the event loop polls this descriptor on behalf of a transport
            of = K.fds.get(fd)
            ev = 0
            if of is None:
                ev = key.events     # closed: report so that the loop notices
            else:
                if (key.events & selectors.EVENT_READ) and of.readable():
                    ev |= selectors.EVENT_READ
                if (key.events & selectors.EVENT_WRITE) and of.write_room() > 0:
                    ev |= selectors.EVENT_WRITE
            if ev:
                out.append((key, ev))
        return out

    def select(self, timeout=None):
        W = shim.W
        W.sys_enter('aselect')
        r = self._ready()
        if not r and (timeout is None or timeout > 0):
            W.block(lambda: bool(self._ready()),
                    None if timeout is None else int(round(timeout * 1e6)), 'aselect')
            r = self._ready()
        W.log('aselect', (timeout,), tuple((k.fd, e) for k, e in r))
        return r


class SimLoop(asyncio.SelectorEventLoop):
    def __init__(self):
        self.sim_transports = []
        super().__init__(selector=SimSelector())
        self._clock_resolution = 1e-6

    def time(self):
        return shim.W.time()

    def _make_read_pipe_transport(self, pipe, protocol, waiter=None, extra=None):
        t = super()._make_read_pipe_transport(pipe, protocol, waiter, extra)
        self.sim_transports.append(t)
        return t

    def detach_all(self):
        """No finaliser may run against a dead world: transports forget their pipe."""
        for t in self.sim_transports:
            try:
                t._pipe = None
                t._closing = True
            except Exception:
                pass


_installed = False


def install():
    global _installed
    if _installed:
        return
    _installed = True
    asyncio.unix_events.os = shim.os_proxy
