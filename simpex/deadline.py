"""C05 family: deadlines under a virtual stopwatch.

One or two calls with timeout T on each entry point against peers that are
silent, trickle non-matching bytes, burst around the deadline, hang up while
staying alive, die, or produce the match late.  The clock is virtual, so
"finished within T + eps" and "not before T" are exact assertions.
"""
from . import harness
from .engine import Violation, gen_costs, collect_info, gen_epoch
from .harness import EOF, TIMEOUT
from .world import SimHang, HarnessError

EPS_US = 500000          # bounded overhead allowed on top of T (virtual)
EARLY_SLACK_US = 100     # float rounding of deadlines
TOKEN = 'MATCH'

ENTRIES = ['expect', 'expect_exact', 'expect_list', 'expect_loop', 'rnb', 'waitnoecho']


def generate(rng):
    scn = {'family': 'deadline'}
    tr = rng.choice(['pty'] * 4 + ['fd'] * 3 + ['sock'] * 2 + ['popen'] * 2)
    scn['transport'] = tr
    entry = rng.choice(['expect'] * 3 + ['expect_exact', 'expect_list', 'expect_loop', 'rnb', 'rnb'] +
                       (['waitnoecho'] * 2 if tr == 'pty' else []))
    scn['entry'] = entry
    scn['costs'] = gen_costs(rng)
    if tr in ('fd', 'pty'):
        scn['use_poll'] = rng.random() < 0.35
    if tr == 'pty':
        scn['eof_flavour'] = rng.choice(['eio', 'eio', 'empty'])
    if tr == 'sock':
        # the socket object's own timeout setting must not leak into the call's deadline
        scn['sock_timeout'] = rng.choice([None, None, 0.0, 0.25, 1.0, 7.5])
    if rng.random() < 0.3:
        scn['enc'] = 'utf-8'
    inst = rng.choice([0.05, 0.3, 1.0, 2.5])
    r = rng.random()
    if r < 0.25:
        T = -1
    elif r < 0.40:
        T = None
    elif r < 0.55:
        T = 0
    else:
        T = rng.choice([0.01, 0.05, 0.2, 1.0, 3.0, 10.0, 30.0])
    if tr == 'popen':
        # the queue polling loop burns one iteration per delayafterread
        scn['delayafterread'] = rng.choice([0.001, 0.005, 0.02])
        scn['sched'] = [rng.randint(0, 3) for _ in range(rng.randint(1, 8))]
        if T not in (None, -1, 0):
            T = min(T, 3.0 if scn['delayafterread'] >= 0.005 else 1.0)
        inst = min(inst, 1.0)
    elif rng.random() < 0.2:
        scn['delayafterread'] = rng.choice([None, 0.01])
    scn['T'] = T
    scn['timeout'] = inst
    scn['maxread'] = rng.choice([1, 4, 2000, 2000])
    Teff = inst if T == -1 else T
    scn['size'] = rng.choice([1, 3, 100])
    if entry == 'waitnoecho':
        kinds = ['silent', 'silent', 'echo_off'] if T is not None else ['echo_off']
    elif T is None:
        kinds = ['late_match', 'late_match', 'die', 'trickle_then_match']
    elif T == 0:
        kinds = ['ready', 'ready', 'silent', 'ready_nomatch', 'die']
    else:
        kinds = ['silent', 'trickle', 'trickle', 'burst', 'burst', 'die', 'late_match']
        if scn.get('enc'):
            kinds += ['partial_char', 'partial_char']
        if tr == 'pty':
            kinds += ['hangup_alive', 'hangup_alive']
        elif tr in ('fd', 'sock'):
            kinds += ['close']
    kind = rng.choice(kinds)
    scn['peer_kind'] = kind
    peer = []
    horizon = (Teff if Teff else 1.0)
    if kind == 'silent':
        peer.append({'op': 'pause'})
    elif kind == 'trickle':
        frac = rng.choice([50, 20, 7, 3, 2])
        dt = max(50, int(horizon * 1e6 / frac))
        n = int((horizon * 1e6 + 3 * EPS_US) / dt) + 3
        n = min(n, 4000)
        peer.append({'op': 'loop', 'd': rng.choice(['z', 'zz', 'MATC', 'z\r\n']), 'dt': dt, 'n': n})
        peer.append({'op': 'pause'})
    elif kind == 'trickle_then_match':
        dt = rng.choice([1000, 50000, 400000])
        n = rng.randint(1, 40)
        if tr == 'popen':
            dt, n = rng.choice([1000, 20000]), rng.randint(1, 20)
        peer.append({'op': 'loop', 'd': 'z', 'dt': dt, 'n': n})
        peer.append({'op': 'w', 'd': TOKEN, 'dt': dt})
        peer.append({'op': 'pause'})
    elif kind == 'partial_char':
        # the head of a multi-byte character arrives (decodes to nothing yet), then silence
        t = max(1, int(horizon * 1e6 * rng.choice([0.3, 0.6, 0.9, 0.97])))
        peer.append({'op': 'w', 'd': rng.choice(['\xe2\x82', '\xe2', 'zz\xf0\x9f\x98']), 'dt': t})
        peer.append({'op': 'pause'})
    elif kind == 'burst':
        off = rng.choice([-20000, -1000, -100, -10, -1, 0, 1, 10, 100, 1000, 20000])
        t = max(1, int(horizon * 1e6) + off)
        peer.append({'op': 'w', 'd': rng.choice([TOKEN, 'zzz', 'MAT']), 'dt': t})
        peer.append({'op': 'pause'})
    elif kind == 'late_match':
        if T is None:
            t = rng.choice([1000, 200000, 5000000, 120000000, 3600000000])
            if tr == 'popen':
                t = rng.choice([1000, 200000, 1500000])
        else:
            t = int(horizon * 1e6 * rng.choice([0.1, 0.5, 0.9, 1.5, 3.0])) + 1
        peer.append({'op': 'w', 'd': 'zz' + TOKEN, 'dt': t})
        peer.append({'op': 'pause'})
    elif kind == 'die':
        if T is None:
            t = rng.choice([1000, 200000, 5000000, 120000000])
            if tr == 'popen':
                t = rng.choice([1000, 200000, 1500000])
        elif T == 0:
            t = rng.choice([0, 1, 10])
        else:
            t = int(horizon * 1e6 * rng.choice([0.1, 0.5, 0.9, 1.5])) + 1
        if rng.random() < 0.5:
            peer.append({'op': 'w', 'd': 'zz', 'dt': max(0, t - 1)})
            t = 1
        end = {'op': 'exit', 'code': rng.choice([0, 3]), 'dt': t} if tr in ('pty', 'popen') else {'op': 'close', 'dt': t}
        peer.append(end)
        if tr == 'pty' and rng.random() < 0.4:
            scn['exit_gap_us'] = rng.randint(1, 20000)
    elif kind == 'close':
        t = int(horizon * 1e6 * rng.choice([0.1, 0.5, 0.9])) + 1
        peer.append({'op': 'close', 'dt': t})
        peer.append({'op': 'pause'})
    elif kind == 'hangup_alive':
        t = int(horizon * 1e6 * rng.choice([0.0, 0.1, 0.5, 0.9])) + 1
        if rng.random() < 0.5:
            peer.append({'op': 'w', 'd': 'zz', 'dt': max(0, t - 1)})
            t = 1
        peer.append({'op': 'close', 'dt': t})
        peer.append({'op': 'sleep', 'dt': rng.choice([5, 100, 1000]) * 1000000})
        peer.append({'op': 'exit', 'code': 0})
    elif kind in ('ready', 'ready_nomatch'):
        d = ('zz' + TOKEN + 'yy') if kind == 'ready' else 'zzzz'
        peer.append({'op': 'w', 'd': d, 'dt': 0})
        peer.append({'op': 'pause'})
        scn['gap'] = rng.choice([50, 500, 20000])
    elif kind == 'echo_off':
        t = rng.choice([1000, 150000, 2000000]) if T is None else int(horizon * 1e6 * rng.choice([0.1, 0.5, 1.5])) + 1
        peer.append({'op': 'echo_off', 'dt': t})
        peer.append({'op': 'pause'})
    scn['peer'] = peer
    if rng.random() < 0.3 and entry not in ('rnb', 'waitnoecho'):
        scn['pending'] = rng.choice(['zz', 'MAT', 'zzzzzzzzzz'])
    if rng.random() < 0.2:
        # a slow or descheduled caller: some system calls take 0.05 .. 5 ms, so that "time left" computed before a
        # liveness check or a read may be used up when the next wait starts
        scn['costs'] = [rng.choice([1, 3, 8, 50, 200, 1000, 5000]) for _ in range(rng.randint(1, 7))]
    if tr != 'popen' and rng.random() < 0.25:
        # signals handled by the parent while it waits: the n-th select/poll that has to wait is interrupted (EINTR reaches
        # pexpect.utils, which must resume with the time that is left, neither the whole timeout again nor none)
        hz = int(horizon * 1e6)
        if rng.random() < 0.5:
            # a run of interruptions each arriving late in the wait
            fr = rng.choice([0.5, 0.9, 0.97])
            scn['eintr'] = [[n, max(1, int(hz * fr))] for n in range(1, rng.randint(2, 6))]
        else:
            scn['eintr'] = sorted([rng.randint(1, 6), max(1, int(hz * rng.choice([0.001, 0.1, 0.5, 0.9, 0.999])))]
                                  for _ in range(rng.randint(1, 3)))
    if tr in ('pty', 'fd', 'sock') and entry != 'waitnoecho' and rng.random() < 0.03:
        # "practically for ever" spelled as a number (a month, three decades): the answer arrives soon and must be reported then;
        # the number itself must not be a problem for whatever the transport waits with
        scn['T'] = T = rng.choice([2.2e6, 3000000, 1e7, 1e9, 10 ** 9])
        scn['peer_kind'] = 'late_match'
        scn['peer'] = [{'op': 'w', 'd': 'zz' + TOKEN, 'dt': rng.choice([1000, 200000, 5000000])}, {'op': 'pause'}]
        scn.pop('eintr', None)
    gen_epoch(rng, scn, 0.4)
    scn['vt_cap_s'] = 400000
    scn['step_cap'] = 250000
    if scn.get('use_poll') and scn.get('transport') in ('pty', 'fd') and rng.random() < 0.3:
        scn['many_fds'] = True      # > 1024 descriptors open: select() would raise, every wait must go through poll
    return scn


def enumerate_scenarios(tier, seed):
    """Data placed at every microsecond offset around the deadline (-40..+40 us): the tie window between
    'the last read returns' and 'the deadline check' is swept completely for each transport and entry point."""
    out = []
    span = 40 if tier == 'quick' else 120
    for tr in ('pty', 'fd', 'sock', 'popen'):
        for entry in ('expect', 'expect_exact', 'rnb'):
            for cost in ([3], [1, 20, 5], [200]):
                # [200]: a slow machine (every system call takes 0.2 ms), swept in coarser steps over a wider range
                for off in (range(-span, span + 1) if cost != [200] else range(-25 * span, 25 * span + 1, 25)):
                    # the awaited text, or text that does not match (the call goes round its read loop once more with
                    # only microseconds left: remaining-time arithmetic around liveness checks and waits)
                    for d in (TOKEN, 'zz'):
                        T = 0.01
                        scn = {'family': 'deadline', 'transport': tr, 'entry': entry, 'costs': cost, 'T': T, 'timeout': 1.0,
                               'maxread': 2000, 'size': 100, 'peer_kind': 'burst',
                               'peer': [{'op': 'w', 'd': d, 'dt': int(T * 1e6) + off}, {'op': 'pause'}],
                               'vt_cap_s': 1000, 'step_cap': 100000, 'enum': ['tie', off, d]}
                        if tr in ('pty', 'fd') and off % 2:
                            scn['use_poll'] = True
                        if tr == 'popen':
                            scn['delayafterread'] = 0.0005
                            scn['sched'] = [0, 1, 1]
                        out.append(scn)
    return out


def _ops(scn):
    ops = []
    if scn.get('pending'):
        ops.append({'op': 'setbuf', 'v': scn['pending']})
    if scn.get('gap'):
        ops.append({'op': 'gap', 'dt': scn['gap']})
    e = scn['entry']
    T = scn['T']
    if e == 'rnb':
        ops.append({'op': 'rnb', 'size': scn.get('size', 1), 'to': T})
    elif e == 'waitnoecho':
        ops.append({'op': 'waitnoecho', 'to': T})
    else:
        pats = [{'t': 'ex' if e == 'expect_exact' else 're', 'p': TOKEN}]
        ops.append({'op': 'expect', 'api': e, 'pats': pats, 'to': T})
    return ops


def run(scn):
    if scn.get('maxread', 1) < 1 or scn.get('size', 1) < 1:
        raise HarnessError('degenerate read size')
    T_ = scn.get('T')
    if isinstance(T_, (int, float)) and T_ > 200000 and not any(st.get('op') in ('w', 'exit', 'close') for st in scn.get('peer', [])):
        # a timeout of months is generated only together with an answer that arrives soon: waiting it out is not what is judged
        raise HarnessError('a very large timeout needs a peer that answers')

    def body(r):
        sc = dict(scn)
        child = r.make_child()
        ops = _ops(scn)
        recs = []
        for k, op in enumerate(ops):
            if k == len(ops) - 1:
                r.ready_at_entry = ready_bytes(r)
            recs.append(r.do_op(k, op))
        v = evaluate(r, scn, ops, recs)
        info = collect_info(r)
        info['counters'] = {'entry:%s' % scn['entry']: 1, 'peer:%s' % scn['peer_kind']: 1,
                            'T:%s' % ('default' if scn['T'] == -1 else 'none' if scn['T'] is None else
                                      'zero' if scn['T'] == 0 else 'finite'): 1,
                            'outcome:%s' % recs[-1]['out']: 1}
        return v, info
    return harness.run_with(scn, body)


def ready_bytes(r):
    """What a non-blocking read could return right now (kernel truth)."""
    tr = r.scn['transport']
    child = r.child
    if tr == 'popen':
        q = getattr(child, '_read_queue', None)       # private: if a refactoring moves it, the T=0 clauses are skipped
        if q is None or not hasattr(q, 'queue'):
            return None
        return b''.join(x for x in list(q.queue) if x is not None)
    of = r.k.fds.get(child.child_fd)
    if of is None:
        return b''
    if of.kind == 'pipe_r':
        return bytes(of.p.buf)
    if of.kind == 'pty_m':
        return bytes(of.pty.out)
    if of.kind == 'sock':
        return bytes(of.rx.buf)
    return b''


def event_time(scn):
    """Virtual time (us from the start of the run) at which the peer's decisive
    action happens, derived from its script (not stored, so a shrunk scenario
    cannot disagree with itself)."""
    t = 0
    kind = scn['peer_kind']
    for st in scn.get('peer', []):
        op = st.get('op', 'w')
        if op == 'loop':
            t += int(st.get('dt', 1)) * int(st.get('n', 1))
            continue
        t += int(st.get('dt', 0) or 0)
        if op == 'w' and TOKEN in st.get('d', '') and kind in ('late_match', 'trickle_then_match', 'burst'):
            return t
        if op in ('exit', 'close', 'kill') and kind in ('die', 'close', 'hangup_alive'):
            return t
        if op == 'echo_off':
            return t
    return None


def blocking_site(r, rec, after_us=None):
    """The intercepted call the operation was inside when `after_us` (virtual us
    since the start of the op) passed; without after_us, the call in which it
    spent the most virtual time."""
    best = None
    prev_t = rec['t0']
    started = False
    for e in r.w.trace:
        seq, t, thr, name, args, res, site = e
        if name == 'op':
            started = (args[0] == rec['k'])
            continue
        if not started or thr != 'main':
            continue
        if t > rec['t1']:
            break
        if after_us is not None:
            if t > rec['t0'] + after_us:
                best = (t - prev_t, name, site)
                break
        else:
            d = t - prev_t
            if best is None or d > best[0]:
                best = (d, name, site)
        prev_t = t
    if best is None:
        return None
    site = best[2]
    return '%s@%s.%s' % (best[1], site[0].replace('.py', ''), site[1]) if site else best[1]


def evaluate(r, scn, ops, recs):
    out = []
    rec = recs[-1]
    T = scn['T']
    Teff = scn['timeout'] if T == -1 else T
    # the time the system calls themselves took (a slow or descheduled machine) is not pexpect's overhead: the bound is on
    # what pexpect adds, so it is taken out of the stopwatch reading; time spent WAITING inside a call stays in
    dur = rec['t1'] - rec['t0'] - rec.get('cost', 0)
    slow = max(scn.get('costs') or [1]) > 20
    kind = scn['peer_kind']
    entry = scn['entry']
    oc = rec['out']
    ret = rec.get('ret')
    is_timeout = oc == 'TIMEOUT' or (entry == 'waitnoecho' and oc == 'ret' and ret is False)
    where = None

    def V(clause, msg):
        after = None
        if clause == 'C05.overrun' and Teff is not None and oc != 'HANG':
            after = Teff * 1e6 + EPS_US
        site = blocking_site(r, rec, after)
        out.append(Violation(clause, msg, site, {'entry': entry, 'T': T, 'inst_timeout': scn['timeout'],
                                                 'peer': kind, 'transport': scn['transport'],
                                                 'outcome': oc, 'ret': repr(ret)[:60], 'dur_s': dur / 1e6,
                                                 'blocked_in': site, 'exc': repr(rec.get('exc'))[:200]}))
    if oc == 'EXC':
        V('C05.exception', 'raised %s: %s' % (type(rec['exc']).__name__, rec['exc']))
        out[-1].site = harness._tb_site(rec['exc'])
        out[-1].detail['blocked_in'] = out[-1].site
        return out
    if Teff is not None:
        if oc == 'HANG':
            V('C05.overrun', 'call with timeout %r never returned: %s' % (Teff, rec['exc']))
            return out
        if dur > Teff * 1e6 + EPS_US + (scn.get('delayafterread') or 0) * 1e6:
            V('C05.overrun', 'call with timeout %r took %.3f virtual s' % (Teff, dur / 1e6))
            return out
        connected = kind in ('silent', 'trickle', 'burst', 'late_match', 'ready', 'ready_nomatch', 'echo_off', 'trickle_then_match', 'partial_char')
        if is_timeout and Teff > 0 and connected and rec['t1'] - rec['t0'] < Teff * 1e6 - EARLY_SLACK_US:
            V('C05.early', 'TIMEOUT after %.6f virtual s with timeout %r while the peer is connected' % (dur / 1e6, Teff))
            return out
    else:
        if is_timeout:
            V('C05.none', 'timeout=None reported TIMEOUT')
            return out
        te = event_time(scn)
        if oc == 'HANG' and te is None:
            return out
        if oc == 'HANG':
            V('C05.none', 'timeout=None never returned although the peer produced its event at %.3f s: %s' % ((te or 0) / 1e6, rec['exc']))
            return out
        # the instance's own delayafterread is slept after every read: that is configuration, not overrun
        nreads = rec.get('c1', 0) - rec.get('c0', 0)
        allow = int(nreads * (scn.get('delayafterread') or 0.0001) * 1.5e6)
        if te is not None and dur > te + EPS_US + allow + (0 if entry != 'waitnoecho' else 100000):
            V('C05.none', 'timeout=None returned %.3f s after the awaited event' % ((dur - te) / 1e6))
            return out
    if T == 0 and entry not in ('waitnoecho',):
        ready = getattr(r, 'ready_at_entry', b'')
        if ready is None:
            return out
        pend = (scn.get('pending') or '').encode('latin-1')
        first = ready[:scn.get('maxread', 2000)]
        if entry != 'rnb':
            if TOKEN.encode() in (pend + first) and oc != 'ret':
                V('C05.zero', 'timeout=0 did not examine immediately readable data %r (outcome %s)' % (first[:20], oc))
                return out
            if TOKEN.encode() not in (pend + ready) and oc == 'ret' and not slow:
                V('C05.zero', 'timeout=0 matched although the token was neither pending nor readable')
                return out
        elif ready:
            if oc != 'ret' or not ret:
                V('C05.zero', 'read_nonblocking(timeout=0) with %d readable bytes gave %s %r' % (len(ready), oc, ret))
                return out
    # a late match inside the deadline must be reported as a match
    if Teff is not None and Teff > 0 and kind == 'late_match' and entry not in ('rnb', 'waitnoecho'):
        te = event_time(scn)
        if te is not None and te < Teff * 1e6 - 200000 and oc != 'ret':
            V('C05.lost_match', 'match delivered at %.3f s within timeout %r but outcome %s' % (te / 1e6, Teff, oc))
    if entry == 'waitnoecho' and kind == 'echo_off':
        te = event_time(scn)
        if te is not None and (Teff is None or te < Teff * 1e6 - 200000) and not (oc == 'ret' and ret is True):
            V('C05.waitnoecho', 'echo switched off at %.3f s but waitnoecho gave %s %r' % (te / 1e6, oc, ret))
    return out
