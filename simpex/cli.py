"""Command line: simcheck <Cxx> [--tier quick|thorough] | replay <file> | selftest-*"""
import argparse
import json
import os
import sys

HERE = os.path.dirname(os.path.abspath(__file__))
VERIF = os.path.dirname(HERE)
sys.path.insert(0, VERIF)
REPO = os.environ.get('VERIF_REPO', '/repo')
sys.path.insert(0, REPO)


def check_tree():
    import pexpect
    root = os.path.dirname(os.path.dirname(os.path.abspath(pexpect.__file__)))
    if os.path.realpath(root) != os.path.realpath(REPO):
        print('HARNESS-ERROR: pexpect imported from %s, not %s' % (root, REPO))
        sys.exit(2)


def main(argv):
    ap = argparse.ArgumentParser(prog='simcheck')
    ap.add_argument('what')
    ap.add_argument('arg', nargs='?')
    ap.add_argument('--tier', default=os.environ.get('VERIF_TIER', 'quick'))
    ap.add_argument('--runs', type=int, default=None)
    ap.add_argument('--budget', type=float, default=None)
    ap.add_argument('--workers', type=int, default=None)
    ap.add_argument('--json', action='store_true')
    a = ap.parse_args(argv)
    check_tree()
    seed = int(os.environ.get('VERIF_SEED', '20261004'))
    from checks import registry
    from simpex import runner
    if a.what == 'replay':
        with open(a.arg) as f:
            rep = json.load(f)
        spec = registry.get(rep['property'])
        rep, viols, info, herr = runner.replay_file(spec, a.arg)
        res = {'property': rep['property'], 'clauses': [v['clause'] for v in viols],
               'tags': [v['tag'] for v in viols], 'digest': info.get('digest'),
               'expected_clause': rep['clause'], 'expected_digest': rep.get('trace_digest'),
               'harness_error': herr}
        if a.json:
            print(json.dumps(res))
        else:
            for v in viols:
                print('violation %s tag=%s: %s' % (v['clause'], v['tag'], v['msg']))
                print('  detail: %s' % json.dumps(v['detail'])[:2000])
            print('trace digest %s (recorded %s)' % (info.get('digest'), rep.get('trace_digest')))
            if herr:
                print(herr)
            same = rep['clause'] in res['clauses'] and info.get('digest') == rep.get('trace_digest')
            print('REPRODUCED' if same else 'NOT REPRODUCED')
        return 0 if rep['clause'] in res['clauses'] else 3
    if a.what == 'list':
        for pid in registry.ids():
            print(pid, registry.get(pid).title)
        return 0
    if a.what.startswith('selftest'):
        from simpex import selftest
        return selftest.main(a.what, a)
    spec = registry.get(a.what)
    if a.tier not in ('quick', 'thorough'):
        a.tier = 'quick'
    return runner.run_check(spec, a.tier, seed, workers=a.workers, runs=a.runs, budget_s=a.budget)


if __name__ == '__main__':
    try:
        rc = main(sys.argv[1:])
    except SystemExit:
        raise
    except BaseException:
        import traceback
        traceback.print_exc()
        print('HARNESS-ERROR: simcheck crashed (this is not a verdict on the property)')
        rc = 2
    sys.exit(rc)
