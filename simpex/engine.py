"""Expect-engine family: scenario generator and oracle clauses shared by
C01 (conservation), C02 (genuine/leftmost/lowest index), C03 (naive-model
equality), C04 (EOF/TIMEOUT outcomes) and parts of C05.

A scenario is explicit JSON; run() draws nothing.
"""
import os
import re

import pexpect

from . import harness
from .harness import EOF, TIMEOUT
from .model import RefExpect, naive_search
from .world import SimHang, HarnessError

ALPHA = 'abc'
EPS_US = 500000


# ------------------------------------------------------------ generation
def gen_epoch(rng, scn, p=0.3):
    """Where on the time axis the run takes place: the harness' default is a small number (1e6 s); a real clock reads about
    1.8e9 s today, where a float resolves a quarter of a microsecond -- deadline arithmetic must not care."""
    if rng.random() < p:
        scn['t0_us'] = rng.choice([1791000000, 1791000000, 4102444800, 86400]) * 1000000 + rng.randrange(1000000)


def gen_costs(rng):
    n = rng.randint(1, 7)
    return [rng.choice([1, 2, 3, 5, 8, 13, 20]) for _ in range(n)]


def gen_text(rng, n, uni=False):
    al = ALPHA + ('\r\n' if rng.random() < 0.5 else '')
    if uni:
        al = al + u'\xe9€' + (u'\U0001f600' if rng.random() < 0.3 else u'')
    elif rng.random() < 0.15:
        al = al + rng.choice(['\x00', '\xff', '\x7f\x00', '\r'])      # NUL, 0xff, DEL, bare CR
    out = []
    while len(out) < n:
        r = rng.random()
        if r < 0.08:
            out.append('\r\n')
        else:
            out.append(rng.choice(al))
    return ''.join(out)[:n]


def gen_regex(rng, zero_ok):
    atoms = ['a', 'b', 'c', '.', '[ab]', '[^a]', 'x', '\\r\\n', 'ab', 'bc', 'ca']
    wide = [False]

    def seq():
        k = rng.choice([1, 1, 2, 2, 3])
        s = ''
        for _ in range(k):
            a = rng.choice(atoms)
            q = rng.choice(['', '', '', '+', '?', '*', '{2}']) if zero_ok else rng.choice(['', '', '', '+', '{2}'])
            if q in ('+', '*') and a in ('.', '[^a]', '[ab]'):
                # at most one unbounded wide repetition per pattern: two of them (".*.*x$") make the regex engine itself
                # cubic in the length of the text, which says nothing about pexpect and only burns the time budget
                if wide[0]:
                    q = ''
                wide[0] = True
            if len(a) > 1 and not a.startswith('[') and q:
                a = '(?:%s)' % a
            s += a + q
        return s
    s = seq()
    r = rng.random()
    if r < 0.15:
        s = '%s|%s' % (s, seq())
    elif r < 0.25:
        s = '(%s)(%s)' % (s, seq())
    if zero_ok and rng.random() < 0.35:
        s = '(?:%s)$' % s if '|' in s else s + '$'
    if zero_ok and rng.random() < 0.08:
        s = rng.choice(['$', 'x*', 'a*$', '(?:)', 'b?'])
    if rng.random() < 0.12:
        # assertions that look outside the span they match: under a window they must see the window only
        # (the searched text is the last W characters), without a window the whole pending text
        k = rng.random()
        if k < 0.2:
            s = '^' + s
        elif k < 0.4:
            s = '\\b' + s
        elif k < 0.6:
            s = '(?<=%s)%s' % (rng.choice(['a', 'b', 'c', 'ab', '\\n']), s)
        elif k < 0.75:
            s = '(?<!%s)%s' % (rng.choice(['a', 'ab', 'c']), s)
        elif k < 0.9:
            s = '%s(?=%s)' % (s, rng.choice(['a', 'bc', 'c', 'ab']))
        else:
            s = '%s(?!%s)' % (s, rng.choice(['a', 'b']))
    return s


def gen_exact(rng, zero_ok):
    k = rng.choice([1, 1, 2, 2, 3, 4])
    if zero_ok and rng.random() < 0.1:
        return ''
    al = ALPHA + ('\r\n' if rng.random() < 0.2 else '')
    return ''.join(rng.choice(al) for _ in range(k))


FOLD_MAP = {'a': u's', 'b': u'k', 'c': u'\u03c3'}                                   # a b c -> s k sigma
FOLD_VARIANTS = {u's': u'sS\u017f', u'k': u'kK\u212a', u'\u03c3': u'\u03c3\u03a3\u03c2'}     # long s, Kelvin sign, final sigma


def recase_text(rng, text, fold):
    """ignorecase runs: the stream carries case variants of what the patterns spell in lower case; in the 'special'
    flavour (unicode mode) the letters are those whose case folding is wider than str.lower()/str.upper()."""
    out = []
    for ch in text:
        if ch in 'abc':
            if fold == 'special':
                out.append(rng.choice(FOLD_VARIANTS[FOLD_MAP[ch]]))
            else:
                out.append(ch.upper() if rng.random() < 0.4 else ch)
        else:
            out.append(ch)
    return u''.join(out) if fold == 'special' else ''.join(out)


def recase_pattern(rng, p, fold):
    if fold != 'special':
        return p
    q = p.replace('\\b', '\x00')          # keep the word-boundary escape intact
    q = u''.join(FOLD_MAP.get(ch, ch) for ch in q)
    return q.replace('\x00', '\\b')


def gen_pats(rng, exact, zero_ok, markers, nomatch=False):
    n = rng.choice([1, 1, 2, 2, 3, 4, 6])
    if nomatch:
        n = rng.choice([0, 1, 1, 2, 3])
    pats = []
    for _ in range(n):
        if nomatch:
            p = rng.choice(['x', 'xx', 'xa', 'ax', 'bxb'])
            pats.append({'t': 'ex', 'p': p} if exact else {'t': 're', 'p': p + rng.choice(['', '+', '{2}'])})
        elif exact:
            pats.append({'t': 'ex', 'p': gen_exact(rng, zero_ok)})
        elif rng.random() < 0.06:
            # a compiled pattern with re.VERBOSE: white space and comments in its text are not part of what it matches
            word = [rng.choice('abc') for _ in range(rng.choice([1, 2, 2, 3]))]
            pats.append({'t': 're', 'p': rng.choice([' ', '  ', '\n']).join(word) + rng.choice(['', ' ', '  # x', ' #a']), 'fl': 'x'})
        else:
            pats.append({'t': 're', 'p': gen_regex(rng, zero_ok)})
    if rng.random() < 0.3 and len(pats) >= 2:
        # make two patterns collide: prefix / duplicate
        i = rng.randrange(len(pats))
        j = rng.randrange(len(pats))
        if exact:
            pats[j] = {'t': 'ex', 'p': pats[i]['p'] + rng.choice(['', 'a', 'b'])}
        else:
            pats[j] = {'t': 're', 'p': pats[i]['p']}
    if not nomatch and pats and rng.random() < 0.2:
        # a short pattern that never occurs, listed first: whatever is derived from "the first listed pattern"
        # instead of from all of them (look-back length, window) is then too small for the later ones
        p0 = rng.choice(['x', 'xb', 'ax'])
        pats.insert(0, {'t': 'ex', 'p': p0} if exact else {'t': 're', 'p': p0})
        if exact and rng.random() < 0.6:
            k = rng.choice([3, 4, 5, 6])
            pats.append({'t': 'ex', 'p': ''.join(rng.choice(ALPHA) for _ in range(k))})
    if rng.random() < 0.04:
        # a long pattern (a whole banner, a generated alternation): its text is quoted in the EOF / TIMEOUT diagnostics
        ln = rng.choice([73, 80, 200, 1000])
        if exact:
            pats.insert(rng.randint(0, len(pats)), {'t': 'ex', 'p': 'x' + ''.join(rng.choice('abc') for _ in range(ln))})
        else:
            pats.insert(rng.randint(0, len(pats)), {'t': 're', 'p': 'x(?:%s)' % '|'.join(
                ''.join(rng.choice('abc') for _ in range(7)) for _ in range(ln // 8 + 1))})
    for m in markers:
        pats.insert(rng.randint(0, len(pats)), {'t': m})
    return pats


def gen_markers(rng):
    r = rng.random()
    if r < 0.35:
        return []
    if r < 0.55:
        return ['EOF']
    if r < 0.75:
        return ['TIMEOUT']
    return rng.choice([['EOF', 'TIMEOUT'], ['TIMEOUT', 'EOF']])


def cut(rng, data, maxpieces):
    if not data:
        return []
    n = rng.randint(1, max(1, min(maxpieces, len(data))))
    pts = sorted(set(rng.randrange(1, len(data)) for _ in range(n - 1))) if len(data) > 1 else []
    out = []
    last = 0
    for p in pts + [len(data)]:
        out.append(data[last:p])
        last = p
    return out


def gen_dt(rng):
    r = rng.random()
    if r < 0.25:
        return 0
    if r < 0.6:
        return rng.randint(1, 60)
    if r < 0.85:
        return rng.randint(100, 5000)
    return rng.randint(10000, 60000)


def gen_eintr(rng, scn, p=0.15, delays=(1, 5, 50, 500, 5000), nmax=25):
    """Signals handled by the parent while it waits (EINTR reaching pexpect.utils): must be transparent.
    Also: an application that holds more than 1024 descriptors and therefore uses use_poll=True (select() raises beyond
    FD_SETSIZE): every wait of the transport must really go through poll."""
    if scn.get('use_poll') and scn.get('transport') in ('pty', 'fd') and rng.random() < 0.3:
        scn['many_fds'] = True
    if scn.get('transport') == 'popen' or rng.random() >= p:
        return
    scn['eintr'] = sorted([rng.randint(1, nmax), rng.choice(delays)] for _ in range(rng.randint(1, 5)))


def generate(rng, profile='engine'):
    """profile: 'engine' (C01-C03), 'eof' (C04)."""
    scn = {'family': 'engine', 'profile': profile}
    if profile == 'eof':
        tr = rng.choice(['fd'] * 3 + ['pty'] * 3 + ['sock'] * 2 + ['popen'] * 2 + ['pxssh'])
    else:
        tr = rng.choice(['fd'] * 6 + ['pty'] * 2 + ['sock'] * 1 + ['popen'] * 1)
    scn['transport'] = tr
    uni = rng.random() < 0.3
    if uni:
        scn['enc'] = 'utf-8'
    scn['costs'] = gen_costs(rng)
    scn['maxread'] = rng.choice([1, 2, 3, 5, 8, 2000, 2000, 2000, 100000])
    scn['sws'] = rng.choice([None] * 6 + [1, 2, 3, 4, 6, 50])
    scn['timeout'] = rng.choice([0.001, 0.003, 0.02])
    if tr in ('fd', 'pty'):
        scn['use_poll'] = rng.random() < 0.3
    if tr == 'fd' and rng.random() < 0.12:
        scn['fd_kind'] = 'tty'
        scn['eof_flavour'] = rng.choice(['empty', 'empty', 'eio'])
    if tr in ('pty', 'pxssh'):
        scn['eof_flavour'] = rng.choice(['eio', 'eio', 'empty'])
        if rng.random() < 0.3:
            scn['exit_gap_us'] = rng.randint(1, 20000)
    if rng.random() < 0.3:
        scn['tear'] = [rng.choice([0, 0, 1, 2, 3]) for _ in range(rng.randint(1, 5))]
    if rng.random() < 0.15:
        scn['cap'] = rng.choice([1, 2, 3, 7, 16])
    if tr == 'popen':
        scn['sched'] = [rng.randint(0, 3) for _ in range(rng.randint(1, 12))]
        scn['delayafterread'] = rng.choice([0.0001, 0.0005, 0.002])
    elif rng.random() < 0.2:
        scn['delayafterread'] = rng.choice([None, 0.001])
    zero_ok = rng.random() < 0.25
    if rng.random() < 0.15:
        scn['ignorecase'] = True
    n = rng.choice([0, 1, 3, 6, 10, 20, 30, 60]) if rng.random() < 0.9 else rng.randint(60, 400)
    if os.environ.get('SIMPEX_TIER') == 'thorough' and rng.random() < 0.3:
        n = rng.randint(100, 1500)
    if n > 300:
        # quantified patterns cost O(n^2) per search: keep the number of searches (reads) of a long stream small
        scn['maxread'] = max(scn['maxread'], 200)
        scn.pop('tear', None)
        if scn.get('cap', 65536) < 200:
            scn.pop('cap', None)
    text = gen_text(rng, n, uni)
    fold = None
    if scn.get('ignorecase'):
        fold = 'special' if (uni and rng.random() < 0.5) else 'ascii'
        scn['fold'] = fold
        text = recase_text(rng, text, fold)
    data = text.encode('utf-8') if uni else text.encode('latin-1')
    pieces = cut(rng, data, rng.choice([1, 2, 4, 8, 16]))
    if uni:
        # keep boundaries on character boundaries only sometimes; C07 owns torn characters
        pass
    peer = []
    deep = os.environ.get('SIMPEX_TIER') == 'thorough'
    nops = rng.randint(1, 12) if profile != 'eof' else rng.randint(2, 9)
    if deep and rng.random() < 0.5:
        nops = rng.randint(8, 30)
    for p in pieces:
        st = {'op': 'w', 'd': harness.l1(p)}
        if rng.random() < 0.12:
            st['at'] = [rng.randrange(nops), rng.randint(1, 12)]
        else:
            st['dt'] = gen_dt(rng)
        peer.append(st)
    ends = rng.random() < (0.75 if profile == 'engine' else 0.85)
    if ends:
        end = {'op': 'exit', 'code': rng.choice([0, 0, 1, 7])} if tr in ('pty', 'popen', 'pxssh') else {'op': 'close'}
        if tr == 'pty' and rng.random() < 0.2:
            end = {'op': 'close'}
        if tr == 'sock' and profile == 'eof' and rng.random() < 0.3:
            end = {'op': 'reset'}      # an error that is NOT end-of-stream: must pass through unchanged
        r = rng.random()
        if r < 0.15:
            end['at'] = [rng.randrange(nops), rng.randint(1, 12)]
        else:
            end['dt'] = gen_dt(rng)
        peer.append(end)
    scn['peer'] = peer
    ops = []
    for k in range(nops):
        r = rng.random()
        if r < 0.07:
            ops.append({'op': 'gap', 'dt': gen_dt(rng) + 1})
            continue
        if r < 0.1:
            # the caller re-tunes the object between calls (attributes are documented as assignable at any time)
            which = rng.choice(['searchwindowsize', 'searchwindowsize', 'maxread', 'timeout'] + ([] if tr == 'popen' else ['delayafterread']))
            val = {'searchwindowsize': rng.choice([None, 1, 2, 3, 8, 50]), 'maxread': rng.choice([1, 2, 5, 2000] if n <= 300 else [200, 2000]),
                   'timeout': rng.choice([0.001, 0.003, 0.02]), 'delayafterread': rng.choice([None, 0.0001, 0.001])}[which]
            ops.append({'op': 'setattr', 'k': which, 'v': val})
            continue
        if r < 0.16:
            ops.append({'op': 'setbuf', 'v': gen_text(rng, rng.choice([0, 0, 1, 3, 6]), uni)})
            continue
        if r < 0.24:
            ops.append({'op': 'read', 'n': rng.choice([1, 2, 3, 5, 0])})
            continue
        if r < 0.32:
            ops.append({'op': 'readline'})
            continue
        if ends and r < 0.36:
            ops.append({'op': rng.choice(['read', 'readlines', 'iter']), 'n': -1})
            continue
        if profile == 'eof' and r < 0.38 and tr == 'sock':
            pass
        exact = rng.random() < 0.4
        api = 'expect_exact' if exact else rng.choice(['expect', 'expect', 'expect_list'])
        if profile == 'eof' and r < 0.40:
            ops.append({'op': 'str'})
            continue
        op = {'op': 'expect', 'api': api,
              'pats': gen_pats(rng, exact, zero_ok, gen_markers(rng),
                               nomatch=(profile == 'eof' and rng.random() < 0.6))}
        tor = rng.random()
        if tor < 0.35:
            op['to'] = -1
        elif tor < 0.55:
            op['to'] = 0
        elif tor < 0.57:
            # "time left" computed by the caller from a deadline of its own, just after that deadline: negative, and not -1
            op['to'] = rng.choice([-0.001, -0.5, -2, -1e-9])
        elif tor < 0.8:
            op['to'] = rng.choice([0.0002, 0.001, 0.004, 0.03])
        elif ends:
            op['to'] = None
        else:
            op['to'] = 0.05
        sr = rng.random()
        if sr < 0.55:
            op['sws'] = -1
        elif sr < 0.65:
            op['sws'] = None
        else:
            op['sws'] = rng.choice([1, 2, 3, 4, 5, 8, 1000])
        if fold == 'special':
            if not exact and rng.random() < 0.6:
                # plain words handed to expect() as strings: pexpect compiles them with IGNORECASE itself
                op['api'] = api = 'expect'
                for pp in op['pats']:
                    if pp.get('t') == 're' and rng.random() < 0.7:
                        pp['p'] = ''.join(rng.choice('abc') for _ in range(rng.choice([1, 2, 2, 3])))
                op['force_raw'] = True
            for pp in op['pats']:
                if 'p' in pp:
                    pp['p'] = recase_pattern(rng, pp['p'], fold)
        if api == 'expect' and len(op['pats']) == 1 and rng.random() < 0.5:
            op['single'] = True
        if rng.random() < 0.15:
            op['pos'] = True
        force_raw = op.pop('force_raw', False)
        if api == 'expect' and not force_raw and rng.random() < 0.06:
            # a pattern compiled from the other string type, with flags of its own
            cands = [pp for pp in op['pats'] if pp.get('t') == 're' and all(ord(ch) < 128 for ch in pp['p'])]
            if cands:
                pp = rng.choice(cands)
                pp['ot'] = True
                pp['fl'] = (pp.get('fl') or '') + rng.choice(['', '', 'i'])
                if not pp['fl']:
                    pp['fl'] = 'd'          # (DOTALL only: what every compiled pattern of the harness carries)
        if any(pp.get('fl') for pp in op['pats']):
            force_raw = False          # flags travel only with compiled patterns
            if api == 'expect':
                op['no_raw'] = True
        if api == 'expect' and not op.pop('no_raw', False) and (rng.random() < 0.5 or force_raw):
            op['raw'] = True
            if rng.random() < 0.4:
                op['same_list'] = True
        ops.append(op)
    if profile == 'eof' and tr in ('pty', 'pxssh', 'fd', 'sock') and rng.random() < 0.15:
        ops.append({'op': 'close'})
        ops.append({'op': 'str'})
    scn['ops'] = ops
    # a call that waits for ever needs a stream that ends no later than that call
    first_none = None
    for k, op in enumerate(ops):
        if op.get('to', 0) is None or op['op'] in ('readlines', 'iter') or (op['op'] == 'read' and op.get('n') == -1):
            first_none = k
            break
    if first_none is not None:
        for st in peer:
            if st.get('at') and st['at'][0] > first_none:
                st['at'][0] = first_none
    scn['step_cap'] = 60000
    if profile == 'engine' and tr in ('fd', 'pty', 'sock') and rng.random() < 0.002:
        # a long session on one object: > 65536 characters handed back line by line (whatever is counted, offset or
        # compacted only after a lot of text has gone through is not reached by short streams)
        lines = []
        total = 0
        while total < rng.choice([70000, 90000, 110000]):
            ln = ''.join(rng.choice('abc ') for _ in range(rng.randint(30, 100))) + '\r\n'
            lines.append(ln)
            total += len(ln)
        data = ''.join(lines).encode('latin-1')
        scn['peer'] = [{'op': 'w', 'd': harness.l1(p), 'dt': gen_dt(rng)} for p in cut(rng, data, rng.choice([4, 16]))]
        scn['peer'].append({'op': 'exit', 'code': 0, 'dt': 50} if tr == 'pty' else {'op': 'close', 'dt': 50})
        scn['ops'] = [{'op': rng.choice(['iter', 'readlines']), 'n': -1}]
        scn['maxread'] = rng.choice([50, 60, 100, 2000])
        scn['timeout'] = 5
        scn['step_cap'] = 2000000
        for k_ in ('tear', 'cap', 'sws', 'ignorecase', 'fold', 'exit_gap_us'):
            scn.pop(k_, None)
        scn['sws'] = None
        ops = scn['ops']
    if profile == 'engine' and rng.random() < 0.02:
        # an occurrence whose look-ahead context is completed by a LATER read of the same call than the one that brought the
        # matched text (and the first characters of the context): whatever restricts a re-search to "the fresh data plus the
        # longest possible match" starts too late.  All listed patterns are of bounded width here, no search window.
        body, btxt = rng.choice([('a', 'a'), ('ab', 'ab'), ('c[ab]', 'cb'), ('b{2}', 'bb'), ('[ab]c', 'ac')])
        la = ''.join(rng.choice('abc') for _ in range(rng.choice([2, 3, 4, 6])))
        pre_ = ''.join(rng.choice('xyz \r\n') for _ in range(rng.choice([0, 1, 5, 40, 300])))
        post_ = ''.join(rng.choice('xyz') for _ in range(rng.choice([0, 1, 5])))
        if rng.random() < 0.5:
            post_ += btxt + la + rng.choice(['', 'z'])      # a second, complete occurrence further on: the first one must win
        cut_in = rng.randint(1, len(la) - 1)
        first = pre_ + btxt + la[:cut_in]
        k0 = rng.randint(0, len(pre_))
        pieces_ = ([first[:k0]] if k0 else []) + [first[k0:], la[cut_in:] + post_]
        gap_ = rng.choice([50, 400, 3000])
        scn['peer'] = [{'op': 'w', 'd': pc_, 'dt': (gap_ if i_ else 5)} for i_, pc_ in enumerate(pieces_)]
        scn['peer'].append({'op': 'exit', 'code': 0, 'dt': 20000} if tr in ('pty', 'popen') else {'op': 'close', 'dt': 20000})
        pats_ = [{'t': 're', 'p': '%s(?=%s)' % (body, la)}]
        for _ in range(rng.choice([0, 0, 1, 2])):
            pats_.insert(rng.randint(0, len(pats_)), {'t': 're', 'p': rng.choice(['q', 'zq', 'x[yz]q', 'q{3}', '(?<=q)x'])})
        if rng.random() < 0.3:
            pats_.append({'t': rng.choice(['EOF', 'TIMEOUT'])})
        scn['ops'] = [{'op': 'expect', 'api': rng.choice(['expect', 'expect_list']), 'pats': pats_, 'to': 0.03, 'sws': rng.choice([-1, None])},
                      {'op': 'expect', 'api': 'expect', 'pats': [{'t': 'EOF'}, {'t': 'TIMEOUT'}], 'to': 0.03, 'sws': -1}]
        scn['sws'] = None
        scn['maxread'] = rng.choice([2000, 2000, 64])
        scn['timeout'] = 0.03
        for k_ in ('tear', 'cap', 'ignorecase', 'fold', 'intr', 'eintr'):
            scn.pop(k_, None)
        if 'enc' in scn:
            pass        # (the text is ASCII: fine in either mode)
        ops = scn['ops']
    if tr != 'popen' and rng.random() < 0.15:
        scn['twin'] = True
        scn['twin_at'] = sorted(set(rng.randrange(max(1, len(ops))) for _ in range(rng.randint(1, 3))))
        ex_ops = [o for o in ops if o.get('op') == 'expect' and o.get('api') == 'expect_exact' and
                  any(pp.get('t') == 'ex' for pp in o['pats'])]
        if ex_ops and 'enc' not in scn and rng.random() < 0.7:
            # ... and in half of these a second caller THREAD uses that object, with the very pattern list of one of the
            # main thread's exact-string calls, on a stream of its own
            scn['twin_thread'] = [dict(pp) for pp in rng.choice(ex_ops)['pats']]
            scn['twin_data'] = ''.join(rng.choice('abc') for _ in range(rng.randint(50, 400)))
            scn['twin_n'] = rng.randint(5, 40)
            scn['twin_at'] = []
            scn['sched'] = [rng.randint(0, 3) for _ in range(rng.randint(1, 12))]
    gen_eintr(rng, scn)
    gen_intr(rng, scn)
    gen_epoch(rng, scn)
    return scn


def gen_intr(rng, scn, p=0.06, nmax=20):
    """An exception from outside (Ctrl-C, a signal handler that raises) abandons a call while it waits; the application
    catches it and goes on using the object."""
    if scn.get('transport') == 'popen' or rng.random() >= p:
        return
    scn['intr'] = sorted([rng.randint(1, nmax), rng.choice([1, 5, 50, 500, 5000])] for _ in range(rng.randint(1, 3)))


# --------------------------------------------------------------- running
class Violation(object):
    def __init__(self, clause, msg, site=None, detail=None):
        self.clause = clause
        self.msg = msg
        self.site = site
        self.detail = detail or {}

    def sig(self):
        return '%s@%s' % (self.clause, self.site)

    def __repr__(self):
        return 'Violation(%s, %s, site=%s)' % (self.clause, self.msg, self.site)


def bytes_read_by_cut(r):
    """Kernel truth: the bytes the code under test has taken from its descriptor so far."""
    tr = r.scn.get('transport')
    if tr == 'fd' and r.scn.get('fd_kind') == 'tty':
        return bytes(r.pty.out_log[:len(r.pty.out_log) - len(r.pty.out)])
    if tr == 'fd':
        p = r.fd_pipe.p
        return bytes(p.log[:len(p.log) - len(p.buf)])
    if tr in ('pty', 'pxssh'):
        return bytes(r.pty.out_log[:len(r.pty.out_log) - len(r.pty.out)])
    if tr == 'sock':
        rx = r.sock._end.rx
        return bytes(rx.log[:len(rx.log) - len(rx.buf)])
    return None


def run(scn, clauses=None):
    """Run the scenario; return (violations, info)."""
    def body(r):
        twin = None
        if scn.get('twin'):
            # a second, unrelated object of the same kind lives next to the one under test and is used now and then:
            # whatever the two share that they should not (class-level or module-level state, a default-argument object)
            # shows up as foreign text in the stream under test
            from . import transports as T_
            tr_, tw_ = r.k.pipe(4096)
            # (in unicode mode its stream ends inside a multi-byte character: its decoder is left holding lead bytes)
            tw_.write_now(b'QZQZ\nQQ' + (b'\xe2\x82' if scn.get('enc') else b''))
            twin = T_.SimFdSpawn(r.k.alloc_fd(tr_), timeout=0.001, maxread=scn.get('maxread', 2000), encoding=scn.get('enc'),
                                 searchwindowsize=scn.get('sws'))
        child = r.make_child()
        twin_thread = None
        if twin is not None and scn.get('twin_thread'):
            # a second caller thread drives the second object with the same pattern list while the main thread works
            tw_.write_now(harness.b(scn.get('twin_data', 'abcabcabc')))
            plist_t = r.build_plist(scn['twin_thread'], True)

            def twin_loop():
                for _ in range(int(scn.get('twin_n', 8))):
                    try:
                        twin.expect_exact(list(plist_t), timeout=0)
                    except (EOF, TIMEOUT):
                        pass
            twin_thread = r.w.spawn_thread('twin', twin_loop)
            r.w.probe('second_caller_thread')
        twin_at = set(scn.get('twin_at') or [])
        for k, op in enumerate(scn['ops']):
            if twin is not None and k in twin_at:
                try:
                    twin.expect([TIMEOUT, EOF, (u'ZQ' if twin.encoding else b'ZQ')], timeout=0)
                    r.w.probe('second_object_used_between_calls')
                except Exception as e:
                    if isinstance(e, (HarnessError, SimHang)):
                        raise
            rec = r.do_op(k, op)
            if rec['out'] == 'HANG' and op.get('to', -1) is None:
                break
            if rec['out'] == 'HANG':
                break
        if twin_thread is not None:
            try:
                r.w.block(lambda: twin_thread.state == 'done', 10 ** 9, 'join the second caller thread')
            except SimHang:
                pass
        v = evaluate(r, clauses)
        if twin is not None and not v and not scn.get('twin_thread'):
            seen = (twin.before if isinstance(twin.before, (bytes, str)) else twin.string_type()) + twin.buffer
            seen_b = seen if isinstance(seen, bytes) else seen.encode('utf-8', 'replace')
            if any(ch not in b'QZ\n' for ch in seen_b):
                v.append(Violation('C01.conservation', 'text of the stream under test turned up in a second, unrelated object', None,
                                   {'twin_saw': seen_b[:60], 'call': {'api': 'twin', 'op': None}}))
        if not v and (clauses is None or 'C04' in clauses) and scn.get('transport') == 'pty':
            # eof(): true from the first EOF outcome on, never while the child still holds its terminal open
            eof_ops = set()
            for c_ in r.calls:
                kd_, vl_ = c_['outcome']
                if (kd_ == 'exc' and isinstance(vl_, EOF)) or (kd_ == 'ret' and isinstance(vl_, int) and 0 <= vl_ < len(c_['plist'])
                                                             and c_['plist'][vl_] is EOF):
                    eof_ops.add(c_['op'])
            first_eof = min([k_ for k_ in eof_ops if isinstance(k_, int)] + [o['k'] for o in r.ops if o['out'] == 'EOF'] + [10 ** 9])
            for o in r.ops:
                if 'eof_flag' not in o:
                    continue
                fl_ = o['eof_flag']
                if isinstance(fl_, Exception):
                    v.append(Violation('C04.eof_flag', 'eof() raised %s: %s' % (type(fl_).__name__, fl_), None,
                                       {'call': {'api': 'eof()', 'op': o['k']}}))
                    break
                if o['k'] >= first_eof and not fl_:
                    v.append(Violation('C04.eof_flag', 'eof() is false after operation %d although EOF was reported by operation %d'
                                       % (o['k'], first_eof), None, {'call': {'api': 'eof()', 'op': o['k']}}))
                    break
                if fl_ and o.get('hung_up') is False and o['k'] < first_eof:
                    v.append(Violation('C04.eof_flag', 'eof() is true after operation %d although the stream has not ended (the child holds its terminal open, or '
                                       'output is still unread) and no call has reported EOF' % o['k'], None, {'call': {'api': 'eof()', 'op': o['k']}}))
                    break
                if fl_:
                    r.w.probe('eof_method_true')
        if child.encoding is not None and (clauses is None or 'C01' in clauses or 'C07' in clauses):
            # the text delivered to matching must be the decoding of the bytes taken from the kernel -- whatever was
            # assigned to the buffer or sent in between (the read decoder's state belongs to the stream alone)
            raw = bytes_read_by_cut(r)
            if raw is not None and not v:
                import codecs
                want = codecs.getincrementaldecoder(child.encoding)(child.codec_errors).decode(raw, False)
                got = u''.join(c for c in child.chunks if isinstance(c, str))
                bad = [o for o in r.ops if o['out'] == 'EXC' and isinstance(o.get('exc'), UnicodeError)]
                if got != want or bad:
                    v.append(Violation('C01.decode_truth', 'text delivered to matching differs from the decoding of the bytes read from the '
                                       'transport' + (' (%s raised)' % type(bad[0]['exc']).__name__ if bad else ''), None,
                                       {'got': got[-40:], 'want': want[-40:], 'call': {'api': 'decode', 'op': None}}))
        return v, collect_info(r)
    return harness.run_with(scn, body)


def collect_info(r):
    w = r.w
    child = r.child
    sigs = set()
    # chunking signature: where read boundaries fell relative to occurrences
    info = {
        'digest': w.digest(), 'vt': w.elapsed_s(), 'steps': w.steps,
        'faults': dict(w.faults), 'probes': dict(w.probes),
        'ordinal_fired': w.ordinal_fired, 'preempts': w.preempts,
        'ncalls': len(r.calls), 'nchunks': len(getattr(child, 'chunks', ())),
        'sigs': [repr(s) for s in sorted(w.sigs, key=repr)],
    }
    return info


def _text_pats(plist):
    return [(i, p) for i, p in enumerate(plist) if p is not EOF and p is not TIMEOUT]


def evaluate(r, clauses=None):
    """All engine clauses over the primitive call log.  Stops at the first
    violation (state diverges afterwards)."""
    child = r.child
    w = r.w
    st = child.string_type
    model = RefExpect(st)
    pend = st()            # accounting: what must be pending before the next call
    out = []
    seen_eof = False

    def V(clause, msg, call=None, **detail):
        site = None
        if call is not None:
            detail['call'] = _call_brief(call)
        if clauses is None or clause.split('.')[0] in clauses or clause in clauses:
            out.append(Violation(clause, msg, site, detail))
            return True
        return False

    # interleave setbuf ops with calls by op index
    setbufs = {}
    setbuf_at = {}
    for o in r.ops:
        if o['op'] == 'setbuf' and o['out'] == 'ret':
            setbufs[o['k']] = r.conv(r.scn['ops'][o['k']]['v'])
            setbuf_at[o['k']] = o.get('c0', 0)
    applied = set()
    ci = 0
    calls = r.calls
    last_op = -1
    prev_c1 = 0
    cur_W_holder = [None]
    late_idx = getattr(r, 'late_chunks', None) or ()
    for call in calls:
        # apply buffer assignments made by ops before this call's op
        for k in sorted(setbufs):
            if k < call['op'] and k not in applied:
                applied.add(k)
                # text that arrived (asyncio path, no call outstanding) before the assignment is replaced by it
                prev_c1 = max(prev_c1, min(setbuf_at.get(k, prev_c1), call['c0']))
                pend = setbufs[k]
                model.set_pending(setbufs[k])
        last_op = call['op']
        # text that arrived while no call was outstanding (asyncio path) is pending text
        for c in child.chunks[prev_c1:call['c0']]:
            if isinstance(c, st):
                pend = pend + c
                model.set_pending(model.pending + c)
        prev_c1 = call['c1']
        allchunks = child.chunks[call['c0']:call['c1']]
        # asyncio path: text delivered after the awaited future was already done (deadline tie)
        # was received during the call but not searched by it: it is pending text afterwards
        chunks = [c for i, c in enumerate(allchunks) if (call['c0'] + i) not in late_idx]
        late_text = st()
        E = pend
        for i, c in enumerate(allchunks):
            if not isinstance(c, st):
                if V('C07.type', 'read_nonblocking returned %s in %s mode' % (type(c).__name__, st.__name__), call):
                    return out
                return out
            E = E + c
            if (call['c0'] + i) in late_idx:
                late_text = late_text + c
        plist = call['plist']
        exact = call['api'] == 'exact'
        # the patterns actually searched must be the ones this call was given (not, say, a list cached from an earlier call)
        opk = call['op']
        if isinstance(opk, int) and 0 <= opk < len(r.scn['ops']) and r.scn['ops'][opk].get('op') == 'expect':
            asked = []
            for pp in r.scn['ops'][opk].get('pats', []):
                asked.append('EOF' if pp['t'] == 'EOF' else 'TIMEOUT' if pp['t'] == 'TIMEOUT' else r.conv(pp['p']))
            used = []
            for q in plist:
                used.append('EOF' if q is EOF else 'TIMEOUT' if q is TIMEOUT else (q.pattern if hasattr(q, 'pattern') else q))
            if used != asked:
                if V('C02.pattern_list', 'the call searched for %r, it was asked to search for %r' % (used, asked), call):
                    return out
                return out
            # strings handed to expect() are compiled by pexpect itself: DOTALL always, IGNORECASE iff the instance says so;
            # compiled patterns (and expect_list) keep the caller's flags
            opd = r.scn['ops'][opk]
            want_flags = re.DOTALL | (re.IGNORECASE if (opk in r.raw_calls and r.scn.get('ignorecase')) else 0)
            mask = re.DOTALL | re.IGNORECASE      # the two flags compile_pattern_list documents
            pats_ = [pp for pp in opd.get('pats', [])]
            for qi, q in enumerate(plist):
                if hasattr(q, 'flags') and qi < len(pats_) and pats_[qi].get('fl') and opk not in r.raw_calls:
                    # a compiled pattern keeps the flags its author gave it, whatever string type it was compiled from
                    fl_ = pats_[qi]['fl']
                    m2 = mask | re.VERBOSE
                    w2 = re.DOTALL | (re.IGNORECASE if 'i' in fl_ else 0) | (re.VERBOSE if 'x' in fl_ else 0)
                    if (q.flags & m2) != w2:
                        if V('C02.pattern_list', 'compiled pattern %r was searched with flags %s, its author compiled it with %s'
                             % (q.pattern, re.RegexFlag(q.flags & m2), re.RegexFlag(w2)), call):
                            return out
                        return out
                    continue
                if hasattr(q, 'flags') and (q.flags & mask) != want_flags:
                    if V('C02.pattern_list', 'pattern %r was searched with flags %s, the call asks for %s'
                         % (q.pattern, re.RegexFlag(q.flags & mask), re.RegexFlag(want_flags)), call):
                        return out
                    return out
        W = call['sws']
        if W == -1:
            W = call['inst_sws']
        kind, val = call['outcome']
        if kind == 'exc' and isinstance(val, KeyboardInterrupt):
            # abandoned from outside while it waited: like a cancelled awaited call it must not have consumed anything,
            # and everything it read is pending text of the next call
            kind = 'cancel'
            r.w.probe('blocking_call_interrupted_from_outside')
        prev_W, cur_W_holder[0] = cur_W_holder[0], (W or 0)
        res = model.call(plist, exact, W, chunks)
        ti = plist.index(TIMEOUT) if TIMEOUT in plist else -1
        ei = plist.index(EOF) if EOF in plist else -1
        if kind == 'cancel':
            # an awaited call abandoned from outside: it must not have consumed anything
            if res['kind'] == 'match':
                if V('C03.missed', 'call was still pending when it was cancelled although pattern %d occurs in the searchable '
                     'pending text after %d of %d reads' % (res['index'], res['j'], len(chunks)), call, model=_res_brief(res)):
                    return out
                return out
            pend = E
            if late_text:
                model.set_pending(model.pending + late_text)
            continue
        is_to = (kind == 'ret' and val == ti and ti >= 0 and call['after'] is TIMEOUT) or \
                (kind == 'exc' and isinstance(val, TIMEOUT))
        is_eof = (kind == 'ret' and val == ei and ei >= 0 and call['after'] is EOF) or \
                 (kind == 'exc' and isinstance(val, EOF))
        # a negative timeout other than -1 ("time left" computed just after the caller's own deadline) is outside what the
        # statements define: such a call is held to conservation and to "a pending occurrence wins", nothing else
        neg_to = isinstance(call['timeout'], (int, float)) and call['timeout'] < 0 and call['timeout'] != -1
        if is_to and call.get('ended_at_entry') is True and not call.get('async') and not neg_to:
            # "when the stream ends ... EOF": the end of the stream was there to be seen before the call began
            if V('C04.eof_missed', 'TIMEOUT reported although the peer had ended the stream and nothing was left unread when '
                 'the call started', call):
                return out
        if kind == 'exc' and not is_to and not is_eof:
            if isinstance(val, SimHang):
                if seen_eof:
                    if V('C04.after_eof_blocks', 'call after EOF blocked: %s' % val, call):
                        return out
                return out    # nothing more to judge
            if isinstance(val, HarnessError):
                raise val
            if isinstance(val, ConnectionResetError) and any(st_.get('op') == 'reset' for st_ in r.scn.get('peer', [])):
                # not an end-of-stream condition: it must come through unchanged, with the attributes errored() documents
                r.w.probe('error_passed_through')
                if call['before'] != E or call['after'] is not None or call['match'] is not None or call['match_index'] is not None:
                    if V('C04.errored', 'after a transport error before/after/match/match_index are %r/%r/%r/%r, expected all pending '
                         'text/None/None/None' % (call['before'], call['after'], call['match'], call['match_index']), call):
                        return out
                return out
            if V('C04.other_exception', 'raised %s: %s' % (type(val).__name__, val), call,
                 exc_site=harness._tb_site(val)):
                out[-1].site = harness._tb_site(val)
                return out
            return out
        if is_to or is_eof:
            name = 'TIMEOUT' if is_to else 'EOF'
            w.probe('outcome_%s_%s' % (name.lower(), 'listed' if kind == 'ret' else 'raised'))
            if is_to and len(call['buffer']) < len(call['before']):
                w.probe('timeout_left_trimmed_search_buffer')
            if res['kind'] == 'match' and res['j'] == 0:
                if V('C04.pending_match_lost', '%s reported although pattern %d already occurs in the searchable pending text '
                     '(timeout %r)' % (name, res['index'], call['timeout']), call, model=_res_brief(res)):
                    return out
            if seen_eof and call['t1'] - call['t0'] > EPS_US:
                if V('C04.after_eof_blocks', 'call after EOF took %.3f virtual s' % ((call['t1'] - call['t0']) / 1e6), call):
                    return out
            if seen_eof and is_to and not neg_to:
                if V('C04.after_eof_timeout', 'TIMEOUT reported after EOF had been reported', call):
                    return out
            if res['kind'] == 'match':
                if V('C03.missed', '%s reported although pattern %d occurs in the searchable pending text after %d of %d reads'
                     % (name, res['index'], res['j'], len(chunks)), call, model=_res_brief(res)):
                    return out
                return out
            if seen_eof and is_eof and E == st() and call['before'] != st():
                if V('C04.eof_clears', 'EOF reported again, but before is %r although the pending text had been cleared by the '
                     'first EOF' % (call['before'],), call):
                    return out
            if call['before'] != E:
                if V('C01.conservation', 'after %s, before != all pending text' % name, call,
                     expected=E, got=call['before']):
                    return out
                # the same fact is part of C04's statement (listed: index with before = all pending text; not listed:
                # raises with the same bookkeeping)
                if V('C04.bookkeeping', '%s outcome (%s), but before is not all the pending text'
                     % (name, 'index returned' if kind == 'ret' else 'raised'), call, expected=E, got=call['before']):
                    return out
                return out
            cls = TIMEOUT if is_to else EOF
            mi = ti if is_to else ei
            if kind == 'exc' and type(val) is not cls:
                if V('C04.class', 'raised %s, not exactly %s' % (type(val).__name__, name), call):
                    return out
            if kind == 'exc' and mi >= 0:
                if V('C04.listed_raised', '%s is listed at %d but was raised' % (name, mi), call):
                    return out
            if call['after'] is not cls:
                if V('C04.after', 'after is %r, expected the %s class' % (call['after'], name), call):
                    return out
            if mi >= 0:
                if call['match'] is not cls or call['match_index'] != mi:
                    if V('C04.match_attrs', 'match/match_index are %r/%r, expected %s/%d'
                         % (call['match'], call['match_index'], name, mi), call):
                        return out
            else:
                if call['match'] is not None or call['match_index'] is not None:
                    if V('C04.match_attrs', 'match/match_index are %r/%r after raised %s'
                         % (call['match'], call['match_index'], name), call):
                        return out
            if is_eof and not seen_eof and getattr(r, 'sock', None) is not None:
                end_ = r.sock._end
                if end_.reset and not end_.rx.wr_closed:
                    if V('C04.error_as_eof', 'EOF reported although the stream did not end: the connection was reset by the peer '
                         '(an error that must pass through)', call):
                        return out
            if is_eof:
                seen_eof = True
                if call['buffer'] != st():
                    if V('C04.eof_clears', 'buffer not empty after EOF', call, got=call['buffer']):
                        return out
                pend = st()
                model.commit_eof()
            else:
                pend = E
                if late_text:
                    model.set_pending(model.pending + late_text)
            continue
        # ---- a text match
        if seen_eof and E == st() and (call['before'] or call['after']):
            if V('C04.after_eof_match', 'a pattern matched after EOF had been reported and the pending text cleared '
                 '(before=%r after=%r)' % (call['before'], call['after']), call):
                return out
        idx = val
        if not isinstance(idx, int) or idx < 0 or idx >= len(plist) or plist[idx] in (EOF, TIMEOUT):
            if V('C02.index', 'returned %r which is not a text pattern index' % (idx,), call):
                return out
            return out
        before, after, buf = call['before'], call['after'], call['buffer']
        if not (isinstance(before, st) and isinstance(after, st) and isinstance(buf, st)):
            if V('C07.type', 'before/after/buffer types %s/%s/%s' % (type(before).__name__, type(after).__name__, type(buf).__name__), call):
                return out
            return out
        if before + after + buf != E:
            if V('C01.conservation', 'before+after+buffer != pending text + reads of this call', call,
                 expected=E, got=before + after + buf, before=before, after=after, buffer=buf):
                return out
            return out
        # C02: genuine, leftmost, lowest index -- judged on the text that was searched
        off = max(0, len(E) - W) if W else 0
        window = E[off:]
        s_abs = len(before)
        s_win = s_abs - off
        p = plist[idx]
        if call['match_index'] != idx:
            if V('C02.index', 'match_index %r != returned index %r' % (call['match_index'], idx), call):
                return out
        if s_win < 0:
            if V('C02.genuine', 'match starts outside the search window', call):
                return out
        if exact:
            if after != p or window[s_win:s_win + len(p)] != p or call['match'] != p:
                if V('C02.genuine', 'after/match is not the literal pattern at the position where before ends', call):
                    return out
        else:
            m = call['match']
            m2 = p.match(window, s_win)
            ok = (m is not None and hasattr(m, 'span') and m.re is p and m.group(0) == after
                  and m.string[m.start():m.end()] == after)
            if ok:
                # some match of p starting there with the same extent must exist
                m3 = p.search(window, s_win)
                ok = m3 is not None and m3.start() == s_win and m3.end() - m3.start() == len(after) \
                    and m3.groups() == m.groups()
            if not ok:
                if V('C02.genuine', 'match object / after do not describe an occurrence of pattern %d at the end of before' % idx, call):
                    return out
        for j, q in _text_pats(plist):
            if exact:
                n = window.find(q)
                qs = n if n >= 0 else None
            else:
                mm = q.search(window)
                qs = mm.start() if mm is not None else None
            if qs is None:
                continue
            if qs < s_win:
                if V('C02.leftmost', 'pattern %d occurs at %d, earlier than the reported match at %d' % (j, qs, s_win), call):
                    return out
            if qs == s_win and j < idx:
                if V('C02.tie', 'pattern %d also matches at %d and is listed before %d' % (j, qs, idx), call):
                    return out
        # reach probes (how often the interesting situations were actually hit)
        if chunks:
            lastlen = len(chunks[-1])
            if s_abs < len(E) - len(late_text) - lastlen < s_abs + len(after):
                w.probe('match_straddles_read_boundary')
        if len(after) == 0 and s_abs + len(buf) == len(E) and len(buf) == 0:
            w.probe('zero_width_match_at_end')
        if W:
            w.probe('match_under_window')
            if s_abs > 0 and off > 0:
                w.probe('unsearched_text_returned_in_before')
        if prev_W is not None and W != prev_W:
            w.probe('window_changed_between_calls')
        # C03: naive model
        if res['kind'] != 'match':
            if V('C03.phantom', 'match reported but the naive search finds none', call):
                return out
            return out
        if res['j'] != len(chunks):
            if V('C03.late', 'naive search matches after read %d, implementation after read %d'
                 % (res['j'], len(chunks)), call, model=_res_brief(res)):
                return out
            return out
        if (res['index'], res['before'], res['after'], res['rest'] + late_text) != (idx, before, after, buf):
            if V('C03.model', 'outcome differs from naive search', call, model=_res_brief(res)):
                return out
            return out
        model.commit_match(res)
        if late_text:
            model.set_pending(model.pending + late_text)
        pend = buf
    pls = getattr(r, 'pre_login_str', None)
    if isinstance(pls, Exception):
        V('C04.diagnostic', 'str() of a pxssh object before login raised %r' % (pls,))
    for o in r.ops:
        if o['op'] == 'str' and o['out'] != 'ret':
            V('C04.diagnostic', 'str(spawn) raised %r' % (o.get('exc'),))
    # op-level API checks (read/readline/readlines/iter return values)
    _api_level(r, V)
    return out


def _api_level(r, V):
    """read(n)/readline()/readlines()/iteration are built on expect: check
    the values they return against the calls they made."""
    child = r.child
    st = child.string_type
    calls_by_op = {}
    for c in r.calls:
        calls_by_op.setdefault(c['op'], []).append(c)
    for o in r.ops:
        if o['out'] != 'ret':
            continue
        op = r.scn['ops'][o['k']]
        cs = calls_by_op.get(o['k'], [])
        kind = o['op']
        if kind == 'read':
            n = op.get('n', -1)
            ret = o['ret']
            if n == 0:
                if ret != st() or cs:
                    V('C01.read_api', 'read(0) returned %r / made calls' % (ret,))
                continue
            if not cs:
                continue
            c = cs[-1]
            if n < 0:
                exp = c['before']
            elif c['outcome'] == ('ret', 0):
                exp = c['after']
                if len(c['after']) != n:
                    V('C01.read_api', 'read(%d) matched %r' % (n, c['after']), c)
            else:
                exp = c['before']
            if ret != exp:
                V('C01.read_api', 'read(%d) returned %r, expected %r' % (n, ret, exp), c)
        elif kind == 'readline':
            if not cs:
                continue
            c = cs[-1]
            exp = c['before'] + child.crlf if c['outcome'] == ('ret', 0) else c['before']
            if o['ret'] != exp:
                V('C01.read_api', 'readline returned %r, expected %r' % (o['ret'], exp), c)
        elif kind in ('readlines', 'iter'):
            lines = []
            for c in cs:
                if c['outcome'] == ('ret', 0):
                    lines.append(c['before'] + child.crlf)
                else:
                    lines.append(c['before'])
            if lines and lines[-1] == st():
                lines = lines[:-1]
            elif lines:
                # the terminating empty read is a call of its own
                pass
            if list(o['ret']) != lines and list(o['ret']) + [st()] != lines:
                V('C01.read_api', '%s returned %r, calls gave %r' % (kind, o['ret'], lines))


def _res_brief(res):
    d = dict(res)
    d.pop('m', None)
    return d


def _call_brief(c):
    pl = []
    for p in c['plist']:
        if p is EOF:
            pl.append('EOF')
        elif p is TIMEOUT:
            pl.append('TIMEOUT')
        elif hasattr(p, 'pattern'):
            pl.append('re:%r' % (p.pattern,))
        else:
            pl.append('ex:%r' % (p,))
    oc = c['outcome']
    return {'api': c['api'], 'plist': pl, 'timeout': c['timeout'], 'sws': c['sws'],
            'inst_sws': c['inst_sws'], 'op': c['op'], 'reads': c['c1'] - c['c0'],
            'outcome': (oc[0], oc[1] if oc[0] in ('ret', 'cancel') else type(oc[1]).__name__),
            'before': c['before'], 'after': c['after'] if not isinstance(c['after'], type) else c['after'].__name__,
            'buffer': c['buffer'], 'dur_us': c['t1'] - c['t0']}
