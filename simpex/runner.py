"""Seeded search driver: fans scenario seeds out over forked workers, collects
coverage, minimises and replays violations, applies known findings, writes
evidence.  A check is a CheckSpec; one integer (VERIF_SEED) decides everything.
"""
import concurrent.futures as cf
import copy
import faulthandler
import gc
import hashlib
import json
import multiprocessing
import os
import random
import subprocess
import sys
import time
import traceback

VERIF = os.path.dirname(os.path.dirname(os.path.abspath(__file__)))
REPLAYS = os.environ.get('VERIF_REPLAY_DIR') or os.path.join(VERIF, 'replays')
EVIDENCE = os.environ.get('VERIF_EVIDENCE_DIR') or os.path.join(VERIF, 'evidence')
KNOWN = os.path.join(VERIF, 'known_findings.json')


class CheckSpec(object):
    def __init__(self, pid, title, generate, run, level='exploration', runs=None,
                 rule='', assumptions=None, components=None, budget_s=None,
                 enumerate_fn=None, nontrivial=None, tag=None, extra=None):
        self.pid = pid
        self.title = title
        self.generate = generate          # (rng) -> scenario
        self.run = run                    # (scenario) -> (violations, info)
        self.level = level
        self.runs = runs or {'quick': 20000, 'thorough': 400000}
        self.budget_s = budget_s or {'quick': 45, 'thorough': 600}
        self.rule = rule
        self.assumptions = assumptions or []
        self.components = components or {}
        self.enumerate_fn = enumerate_fn  # (tier, seed) -> list of scenarios (complete sweeps)
        self.nontrivial = nontrivial or (lambda scn, info: True)
        self.tag = tag or (lambda scn, v: None)   # finer signature for known findings
        self.extra = extra                # (agg) -> dict merged into coverage


# --------------------------------------------------------------- JSON safety
def jsonable(x):
    if isinstance(x, dict):
        return dict((str(k), jsonable(v)) for k, v in x.items())
    if isinstance(x, (list, tuple, set, frozenset)):
        return [jsonable(v) for v in x]
    if isinstance(x, bytes):
        return {'__bytes__': x.decode('latin-1')}
    if isinstance(x, (str, int, float, bool)) or x is None:
        return x
    if isinstance(x, type):
        return x.__name__
    return repr(x)


def scn_digest(scn):
    return hashlib.blake2b(json.dumps(scn, sort_keys=True).encode(), digest_size=8).hexdigest()


# ------------------------------------------------------------------- worker
_SPEC = None


def _viol_record(spec, scn, v):
    return {'clause': v.clause, 'msg': v.msg, 'site': jsonable(v.site),
            'tag': spec.tag(scn, v), 'detail': jsonable(v.detail)}


def run_one(spec, scn):
    """Run a scenario; classify.  Returns (viol_records, info, harness_error)."""
    faulthandler.dump_traceback_later(120, exit=True)
    try:
        vs, info = spec.run(scn)
        return [_viol_record(spec, scn, v) for v in vs], info, None
    except Exception:
        return [], {}, traceback.format_exc()
    except KeyboardInterrupt as e:
        if type(e).__name__ != 'SimInterrupt':
            raise
        return [], {}, traceback.format_exc()      # an injected interrupt that the family's driver did not expect
    finally:
        faulthandler.cancel_dump_traceback_later()


def _worker(args):
    pid, base_seed, lo, hi, deadline, scns = args
    spec = _SPEC
    agg = new_agg()
    i = lo
    t_start = time.time()
    items = scns if scns is not None else range(lo, hi)
    for it in items:
        if time.time() > deadline:
            agg['cut_short'] = True
            break
        if scns is not None:
            scn = it
            seedrep = 'enum'
        else:
            rng = random.Random('%s:%d:%d' % (pid, base_seed, it))
            try:
                scn = spec.generate(rng)
            except Exception:
                agg['harness_errors'].append({'seed': it, 'tb': traceback.format_exc()})
                continue
            scn['seed'] = [base_seed, it]
            seedrep = it
        t_run = time.time()
        viols, info, herr = run_one(spec, scn)
        t_run = time.time() - t_run
        if t_run > agg['slowest'][0]:
            agg['slowest'] = (round(t_run, 3), seedrep)
        agg['runs'] += 1
        if herr is not None:
            if len(agg['harness_errors']) < 5:
                agg['harness_errors'].append({'seed': seedrep, 'tb': herr, 'scn': scn})
            agg['n_harness_errors'] += 1
            continue
        merge_info(agg, spec, scn, info)
        if agg['runs'] % 47 == 0 and info.get('digest'):
            # determinism re-check: the same scenario again, in this process, must give the same trace and verdict
            v2, i2, h2 = run_one(spec, scn)
            agg['counters']['determinism_rechecks'] = agg['counters'].get('determinism_rechecks', 0) + 1
            if h2 is not None or i2.get('digest') != info.get('digest') or len(v2) != len(viols):
                agg['n_harness_errors'] += 1
                agg['harness_errors'].append({'seed': seedrep, 'tb': 'NON-DETERMINISTIC: digest %s vs %s, violations %d vs %d'
                                              % (info.get('digest'), i2.get('digest'), len(viols), len(v2)), 'scn': scn})
        if viols:
            agg['n_viol_runs'] += 1
            for v in viols[:1]:
                key = '%s|%s' % (v['clause'], v['tag'])
                agg['viol_keys'][key] = agg['viol_keys'].get(key, 0) + 1
                if key not in agg['viol_first']:
                    agg['viol_first'][key] = {'scn': scn, 'viol': v}
        if agg['runs'] % 2000 == 0:
            gc.collect()
    agg['wall'] = time.time() - t_start
    return agg


def new_agg():
    return {'runs': 0, 'vt': 0.0, 'steps': 0, 'faults': {}, 'probes': {}, 'digests': set(),
            'nontrivial_digests': set(), 'sigs': set(), 'viol_keys': {}, 'viol_first': {},
            'n_viol_runs': 0, 'harness_errors': [], 'n_harness_errors': 0, 'samples': [],
            'ordinal_fired': 0, 'preempts': 0, 'cut_short': False, 'wall': 0.0, 'counters': {}, 'slowest': (0.0, None)}


def merge_info(agg, spec, scn, info):
    agg['vt'] += info.get('vt', 0.0)
    agg['steps'] += info.get('steps', 0)
    for k, v in info.get('faults', {}).items():
        agg['faults'][k] = agg['faults'].get(k, 0) + v
    for k, v in info.get('probes', {}).items():
        agg['probes'][k] = agg['probes'].get(k, 0) + v
    for k, v in info.get('counters', {}).items():
        agg['counters'][k] = agg['counters'].get(k, 0) + v
    d = info.get('digest')
    if d:
        agg['digests'].add(d)
        if spec.nontrivial(scn, info):
            agg['nontrivial_digests'].add(d)
    for s in info.get('sigs', []):
        agg['sigs'].add(s)
    agg['ordinal_fired'] += info.get('ordinal_fired', 0)
    agg['preempts'] += info.get('preempts', 0)
    if len(agg['samples']) < 2:
        agg['samples'].append({'scenario': scn, 'digest': d, 'virtual_s': info.get('vt')})


def merge_agg(a, b):
    for k in ('runs', 'vt', 'steps', 'n_viol_runs', 'n_harness_errors', 'ordinal_fired', 'preempts', 'wall'):
        a[k] += b[k]
    for k in ('faults', 'probes', 'viol_keys', 'counters'):
        for kk, v in b[k].items():
            a[k][kk] = a[k].get(kk, 0) + v
    for k in ('digests', 'nontrivial_digests', 'sigs'):
        a[k] |= b[k]
    for kk, v in b['viol_first'].items():
        a['viol_first'].setdefault(kk, v)
    a['harness_errors'] += b['harness_errors'][:max(0, 5 - len(a['harness_errors']))]
    if len(a['samples']) < 3:
        a['samples'] += b['samples'][:3 - len(a['samples'])]
    a['cut_short'] = a['cut_short'] or b['cut_short']
    if b['slowest'][0] > a['slowest'][0]:
        a['slowest'] = b['slowest']


# ------------------------------------------------------------------ shrink
def _paths(x, pre=()):
    """All container paths in a JSON value."""
    out = []
    if isinstance(x, dict):
        for k in sorted(x):
            out += _paths(x[k], pre + (k,))
        out.append((pre, 'dict'))
    elif isinstance(x, list):
        for i, v in enumerate(x):
            out += _paths(v, pre + (i,))
        out.append((pre, 'list'))
    elif isinstance(x, str):
        out.append((pre, 'str'))
    elif isinstance(x, bool):
        pass
    elif isinstance(x, int):
        out.append((pre, 'int'))
    elif isinstance(x, float):
        out.append((pre, 'float'))
    return out


def _get(x, path):
    for p in path:
        x = x[p]
    return x


def _set(x, path, v):
    for p in path[:-1]:
        x = x[p]
    x[path[-1]] = v


PROTECTED = set(['family', 'profile', 'transport', 'op', 't', 'seed', 'api', 'kind', 'entry', 'peer_kind', 'enc', 'errors'])


def shrink(scn, fails, budget_s=60, max_tries=3000):
    """Greedy delta debugging over the scenario JSON while fails(scn) holds."""
    t_end = time.time() + budget_s
    tries = [0]
    best = copy.deepcopy(scn)

    def attempt(cand):
        if time.time() > t_end or tries[0] >= max_tries:
            return False
        tries[0] += 1
        try:
            return bool(fails(cand))
        except Exception:
            return False
    progress = True
    while progress and time.time() < t_end and tries[0] < max_tries:
        progress = False
        # 1. delete list elements (largest lists first, chunks then singles)
        lists = [p for p, t in _paths(best) if t == 'list' and p and p[-1] not in ('seed',)]
        lists.sort(key=lambda p: -len(_get(best, p)))
        for p in lists:
            try:
                L = _get(best, p)
            except (KeyError, IndexError, TypeError):
                continue
            if not isinstance(L, list):
                continue
            n = len(L)
            size = max(1, n // 2)
            while size >= 1 and n > 0:
                i = 0
                while i < len(_get(best, p)):
                    cand = copy.deepcopy(best)
                    LL = _get(cand, p)
                    del LL[i:i + size]
                    if attempt(cand):
                        best = cand
                        progress = True
                    else:
                        i += size
                if size == 1:
                    break
                size //= 2
        # 2. drop optional keys
        for p, t in _paths(best):
            if not p or isinstance(p[-1], int) or p[-1] in PROTECTED:
                continue
            if len(p) == 1 and p[0] in ('ops', 'peer'):
                continue
            cand = copy.deepcopy(best)
            try:
                parent = _get(cand, p[:-1])
                if not isinstance(parent, dict) or p[-1] not in parent:
                    continue
                del parent[p[-1]]
            except (KeyError, IndexError, TypeError):
                continue
            if attempt(cand):
                best = cand
                progress = True
        # 3. shorten strings, shrink numbers
        for p, t in _paths(best):
            if p and p[-1] in PROTECTED:
                continue
            try:
                v = _get(best, p)
            except (KeyError, IndexError, TypeError):
                continue
            cands = []
            if t == 'str' and len(v) > 0:
                cands = [v[:len(v) // 2], v[len(v) // 2:], v[1:], v[:-1]]
            elif t == 'int' and v > 0:
                cands = [c for c in (0, 1, v // 2, v - 1) if 0 <= c < v]
            elif t == 'float' and v > 0:
                cands = [c for c in (0.0, 1.0, round(v / 2, 6)) if 0 <= c < v]
            for c in cands:
                if c == v:
                    continue
                cand = copy.deepcopy(best)
                _set(cand, p, c)
                if attempt(cand):
                    best = cand
                    progress = True
                    break
    return best, tries[0]


# ----------------------------------------------------------- known findings
def load_known():
    if not os.path.exists(KNOWN):
        return []
    with open(KNOWN) as f:
        return json.load(f).get('findings', [])


def match_known(known, pid, v):
    for k in known:
        if k.get('status') != 'open' or k.get('property') != pid:
            continue
        if k.get('clause') == v['clause'] and k.get('tag') == v['tag']:
            return k
    return None


# ------------------------------------------------------------------ replay
def write_replay(spec, scn, viol, digest, note=''):
    os.makedirs(REPLAYS, exist_ok=True)
    name = '%s-%s.json' % (spec.pid, scn_digest(scn))
    path = os.path.join(REPLAYS, name)
    with open(path, 'w') as f:
        json.dump({'property': spec.pid, 'clause': viol['clause'], 'tag': viol['tag'],
                   'msg': viol['msg'], 'site': viol['site'], 'detail': viol['detail'],
                   'trace_digest': digest, 'note': note, 'scenario': scn}, f, indent=1, sort_keys=True)
    return path


def replay_file(spec, path):
    """Re-execute a replay file; returns (violations, info)."""
    with open(path) as f:
        rep = json.load(f)
    viols, info, herr = run_one(spec, rep['scenario'])
    return rep, viols, info, herr


def replay_fresh(pid, path):
    """Replay in a fresh interpreter; returns parsed JSON result."""
    env = dict(os.environ)
    env['PYTHONHASHSEED'] = '7'
    p = subprocess.run([os.path.join(VERIF, 'simcheck'), 'replay', path, '--json'],
                       capture_output=True, text=True, env=env, timeout=300)
    try:
        return json.loads(p.stdout.strip().splitlines()[-1])
    except Exception:
        return {'error': p.stdout[-2000:] + p.stderr[-2000:]}


# --------------------------------------------------------------------- main
def run_check(spec, tier, seed, workers=None, runs=None, budget_s=None, out=sys.stdout):
    global _SPEC
    _SPEC = spec
    os.environ['SIMPEX_TIER'] = tier          # generators go deeper (longer histories, larger bounds) in the thorough tier
    t0 = time.time()
    workers = workers or min(16, os.cpu_count() or 1)
    nruns = runs or spec.runs[tier]
    budget = budget_s or spec.budget_s[tier]
    deadline = t0 + budget
    known = load_known()
    agg = new_agg()
    print('simcheck %s tier=%s VERIF_SEED=%d runs=%d workers=%d' % (spec.pid, tier, seed, nruns, workers), file=out)
    tasks = []
    enum_total = 0
    if spec.enumerate_fn is not None:
        scns = spec.enumerate_fn(tier, seed)
        enum_total = len(scns)
        per = max(1, (len(scns) + workers * 4 - 1) // (workers * 4))
        for i in range(0, len(scns), per):
            tasks.append((spec.pid, seed, 0, 0, deadline, scns[i:i + per]))
    per = max(50, nruns // (workers * 8))
    lo = 0
    while lo < nruns:
        hi = min(nruns, lo + per)
        tasks.append((spec.pid, seed, lo, hi, deadline, None))
        lo = hi
    ctx = multiprocessing.get_context('fork')
    pool_broken = None
    if workers == 1:
        for t in tasks:
            merge_agg(agg, _worker(t))
    else:
        with cf.ProcessPoolExecutor(max_workers=workers, mp_context=ctx) as ex:
            futs = [ex.submit(_worker, t) for t in tasks]
            for f in cf.as_completed(futs):
                try:
                    merge_agg(agg, f.result())
                except Exception as e:       # BrokenProcessPool, watchdog kill
                    pool_broken = repr(e)
    wall_search = time.time() - t0
    rc = 0
    regress_err = False
    lines = []
    # ---- known findings: replay stored scenarios
    known_reports = []
    for kf in known:
        if kf.get('property') != spec.pid or kf.get('status') != 'open':
            continue
        path = os.path.join(VERIF, kf['replay'])
        rep, viols, info, herr = replay_file(spec, path)
        still = [v for v in viols if v['clause'] == kf['clause'] and v['tag'] == kf['tag']]
        if still:
            lines.append('KNOWN-FINDING: property=%s %s [%s %s] replay=%s'
                         % (spec.pid, kf['what'], kf['clause'], kf['tag'], kf['replay']))
            known_reports.append({'id': kf.get('id'), 'clause': kf['clause'], 'tag': kf['tag'],
                                  'reproduced': True})
        else:
            known_reports.append({'id': kf.get('id'), 'clause': kf['clause'], 'tag': kf['tag'],
                                  'reproduced': False})
            lines.append('NOTE: known finding %s no longer reproduces from its replay file' % kf.get('id'))
    # ---- regression corpus: replays of repaired defects must stay quiet
    for kf in known:
        if kf.get('property') != spec.pid or kf.get('status') != 'fixed' or not kf.get('replay'):
            continue
        path = os.path.join(VERIF, kf['replay'])
        rep, viols, info, herr = replay_file(spec, path)
        if herr is not None:
            lines.append('HARNESS-ERROR: regression replay %s: %s' % (kf['replay'], herr))
            regress_err = True
        if viols:
            lines.append('VIOLATION property=%s replay=%s' % (spec.pid, kf['replay']))
            lines.append('  repaired defect %s is back: %s %s' % (kf.get('id'), viols[0]['clause'], viols[0]['msg']))
            rc = 1
        known_reports.append({'id': kf.get('id'), 'status': 'fixed', 'replayed': True, 'violates': bool(viols)})
    # ---- violations found by exploration
    new_viols = []
    suppressed = {}
    for key in sorted(agg['viol_first']):
        first = agg['viol_first'][key]
        kf = match_known(known, spec.pid, first['viol'])
        if kf is not None:
            suppressed[key] = agg['viol_keys'][key]
            continue
        new_viols.append((key, first))
    replays = []
    # report distinct clauses first; cap the number of minimisations
    seen_cl = set()
    ordered = []
    for key, first in new_viols:
        if first['viol']['clause'] not in seen_cl:
            seen_cl.add(first['viol']['clause'])
            ordered.append((key, first))
    ordered += [x for x in new_viols if x not in ordered]
    for key, first in ordered[:8]:
        scn, viol = first['scn'], first['viol']

        def fails(c, _v=viol):
            vs, info, herr = run_one(spec, c)
            return herr is None and any(x['clause'] == _v['clause'] and x['tag'] == _v['tag'] for x in vs)
        if os.environ.get('VERIF_NO_SHRINK'):
            small, tries = scn, 0
        else:
            small, tries = shrink(scn, fails, budget_s=12 if tier == 'quick' else 60)
        vs, info, herr = run_one(spec, small)
        vv = [x for x in vs if x['clause'] == viol['clause'] and x['tag'] == viol['tag']]
        if not vv:
            small, vv, info = scn, [viol], run_one(spec, scn)[1]
        path = write_replay(spec, small, vv[0], info.get('digest'), note='minimised in %d runs' % tries)
        fresh = replay_fresh(spec.pid, path)
        same = (fresh.get('clauses') and vv[0]['clause'] in fresh.get('clauses', [])
                and fresh.get('digest') == info.get('digest'))
        rel = os.path.relpath(path, VERIF)
        lines.append('VIOLATION property=%s replay=%s' % (spec.pid, rel))
        lines.append('  clause=%s tag=%s count=%d: %s' % (viol['clause'], viol['tag'], agg['viol_keys'][key], vv[0]['msg']))
        lines.append('  replay-in-fresh-interpreter: %s' % ('reproduced exactly' if same else 'MISMATCH %r' % (fresh,)))
        replays.append(rel)
        rc = 1
    herr_rc = 0
    if agg['n_harness_errors'] or pool_broken or regress_err:
        herr_rc = 2
        lines.append('HARNESS-ERROR: %d runs raised inside the harness; pool=%s' % (agg['n_harness_errors'], pool_broken))
        for h in agg['harness_errors'][:2]:
            lines.append(h['tb'])
    wall = time.time() - t0
    # ---- evidence
    nd = len(agg['nontrivial_digests'])
    cov = {
        'evaluations': agg['runs'],
        'distinct_nontrivial': nd,
        'rule': spec.rule,
        'samples': jsonable(agg['samples'][:3]),
        'exhaustive': False,
        'enumerated_cases': enum_total,
        'distinct_trace_digests': len(agg['digests']),
        'distinct_placement_signatures': len(agg['sigs']),
        'virtual_seconds_simulated': round(agg['vt'], 3),
        'simulated_steps': agg['steps'],
        'runs_per_hour': int(agg['runs'] / max(wall_search, 1e-6) * 3600),
        'seeds': {'VERIF_SEED': seed, 'run_seed_rule': "random.Random('%s:<VERIF_SEED>:<i>') for i in [0, %d)" % (spec.pid, nruns)},
        'fault_firings': agg['faults'],
        'probes': agg['probes'],
        'probes_at_zero': sorted(k for k, v in agg['probes'].items() if v == 0),
        'counters': agg['counters'],
        'ordinal_triggers_fired': agg['ordinal_fired'],
        'thread_preemptions': agg['preempts'],
        'components': spec.components,
        'known_findings_replayed': known_reports,
        'suppressed_known_violations': suppressed,
        'violating_runs': agg['n_viol_runs'],
        'replays': replays,
        'cut_short_by_wall_budget': agg['cut_short'],
        'workers': workers,
        'slowest_run': {'wall_s': agg['slowest'][0], 'seed_index': agg['slowest'][1]},
    }
    if spec.extra is not None:
        try:
            cov.update(jsonable(spec.extra(agg)))
        except Exception:
            pass
    ev = {'property_id': spec.pid, 'tier': tier, 'seed': seed, 'level': spec.level,
          'coverage': cov, 'assumptions': spec.assumptions, 'wall_s': round(wall, 2),
          'violations': len(new_viols)}
    os.makedirs(EVIDENCE, exist_ok=True)
    with open(os.path.join(EVIDENCE, '%s.json' % spec.pid), 'w') as f:
        json.dump(ev, f, indent=1, sort_keys=True)
    for l in lines:
        print(l, file=out)
    print('%s: %d runs (%d enumerated) in %.1fs (search %.1fs, slowest run %.2fs seed#%s), %d distinct non-trivial, %.0f virtual s, faults=%s'
          % (spec.pid, agg['runs'], enum_total, wall, wall_search, agg['slowest'][0], agg['slowest'][1], nd, agg['vt'], agg['faults']), file=out)
    if agg['probes'].get('real_fd_call'):
        print('HARNESS-ERROR: %d calls on real descriptors escaped the simulation' % agg['probes']['real_fd_call'], file=out)
        if rc == 0:
            return 2
    zero = [k for k, v in agg['probes'].items() if v == 0]
    if zero:
        print('WARNING: probes at zero: %s' % zero, file=out)
    if rc == 0 and herr_rc:
        return herr_rc
    if rc == 0 and nd < 2:
        print('HARNESS-ERROR: fewer than 2 distinct non-trivial runs', file=out)
        return 2
    return rc
