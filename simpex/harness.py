"""Run harness shared by all checks: build a world from a scenario, attach a
transport and a scripted peer, execute the driver's operation list against the
real pexpect objects, and hand back everything the oracles need.
"""
import gc
import re

import pexpect

from . import shim
from .world import World, SimHang, SimShutdown, SimInterrupt, HarnessError, US
from .kernel import Kernel, PtyMaster, PtySlave, OPOST, ECHO, ICANON, ISIG, ICRNL
from . import peers
from . import transports as T

EOF = pexpect.EOF
TIMEOUT = pexpect.TIMEOUT


def b(s):
    """JSON str (latin-1 carrier) -> bytes."""
    if isinstance(s, bytes):
        return s
    return s.encode('latin-1')


def l1(bs):
    return bytes(bs).decode('latin-1')


class TapLog(object):
    """Records what the object under test delivers as READ text through the public logfile_read attribute (the asyncio
    protocol does not pass through read_nonblocking, where blocking reads are recorded) and forwards to the log the
    scenario attached, if any.  Public API only: a refactoring of private helpers cannot disconnect it."""

    def __init__(self, inner, cb):
        self.inner = inner
        self.cb = cb

    def write(self, s):
        self.cb(s)
        if self.inner is not None:
            self.inner.write(s)

    def flush(self):
        if self.inner is not None:
            self.inner.flush()


def tap_reads(child, cb):
    child.logfile_read = TapLog(child.logfile_read, cb)


class Run(object):
    """One run: world + kernel + child object + logs."""

    def __init__(self, scn):
        self.scn = scn
        self.w = World(scn)
        self.k = Kernel(self.w)
        shim.install()
        shim.set_world(self.w)
        self.child = None
        self.wrote = []          # bytes the peer managed to write (list)
        self.received = []       # bytes the peer received (list)
        self.peer = None
        self.proc = None
        self.pty = None
        self.sock = None
        self.calls = []          # primitive expect-family calls (see CallRec)
        self.raw_calls = set()      # ops in which the harness handed uncompiled strings to expect()
        self._ended_at_entry = {}
        self.ops = []            # per driver op: dict(outcome...)
        self.notes = []

    # ------------------------------------------------------------ transport
    def make_child(self, cls_kw=None):
        if self.scn.get('many_fds') and not self.scn.get('use_poll'):
            raise HarnessError('many_fds without use_poll: select() cannot serve such an application at all')
        scn = self.scn
        tr = scn.get('transport', 'fd')
        kw = dict(timeout=scn.get('timeout', 30), maxread=scn.get('maxread', 2000),
                  searchwindowsize=scn.get('sws'), encoding=scn.get('enc'),
                  codec_errors=scn.get('errors', 'strict'))
        if cls_kw:
            kw.update(cls_kw)
        steps = self.peer_steps()
        cap = scn.get('cap', 65536)
        react = scn.get('react_us', 1)
        w, k = self.w, self.k
        mode = scn.get('peer_mode', 'writer')
        if tr == 'fd' and scn.get('fd_kind') == 'regfile':
            # a regular file that the peer keeps appending to
            from .kernel import RegFile
            rf = RegFile(k)
            self.regfile = rf
            fd = k.alloc_fd(rf)
            self.peer = peers.Actor(w, k, None, peers.writer(rf, [st for st in steps if st.get('op', 'w') == 'w'] + [{'op': 'pause'}],
                                                             self.wrote), react, 'peer')
            self.peer.start(0)
            if 'use_poll' in scn:
                kw['use_poll'] = scn['use_poll']
            child = T.SimFdSpawn(fd, **kw)
        elif tr == 'fd' and scn.get('fd_kind') == 'tty':
            # the application opened a terminal device itself (a serial line, the master side of a pty it manages) and
            # set it up the way pyserial does -- non-canonical, VMIN 0 -- before handing the descriptor to fdspawn
            import termios as _t
            pty = k.pty(out_cap=cap, eof_flavour=scn.get('eof_flavour', 'empty'))
            self.pty = pty
            pty.attr[1] &= ~OPOST
            pty.attr[3] &= ~(ICANON | ECHO | ISIG)
            pty.attr[6] = list(pty.attr[6])
            pty.attr[6][_t.VMIN] = 0
            pty.attr[6][_t.VTIME] = 0
            fd = k.alloc_fd(PtyMaster(pty))
            slave = PtySlave(pty)
            self.peer = peers.Actor(w, k, None, peers.writer(slave, [st for st in steps if st.get('op', 'w') in ('w', 'close', 'pause')],
                                                             self.wrote), react, 'peer')
            self.peer.start(0)
            if 'use_poll' in scn:
                kw['use_poll'] = scn['use_poll']
            child = T.SimFdSpawn(fd, **kw)
            w.probe('fdspawn_on_a_terminal_device')
        elif tr == 'fd':
            r, wr = k.pipe(cap)
            self.fd_pipe = r
            fd = k.alloc_fd(r)
            inw = None
            if mode != 'writer':
                # bidirectional: a second pipe is not what fdspawn has; use a socket-like
                # pair presented through one descriptor
                raise HarnessError('fd transport supports writer peers only here')
            self.peer = peers.Actor(w, k, None, peers.writer(wr, steps, self.wrote), react, 'peer')
            self.peer.start(0)
            if 'use_poll' in scn:
                kw['use_poll'] = scn['use_poll']
            child = T.SimFdSpawn(fd, **kw)
        elif tr == 'pty':
            def factory(proc, slave, pty):
                self.proc, self.pty = proc, pty
                if scn.get('raw_out', True):
                    pty.attr[1] &= ~OPOST
                proc.exit_gap_us = scn.get('exit_gap_us', 0)
                proc.sig_latency_us = scn.get('sig_latency_us', 0)
                for s in scn.get('ignore', []):
                    proc.disp[s] = 'ign'
                self.peer = peers.Actor(w, k, proc, peers.writer(slave, steps, self.wrote), react, 'child')
                return self.peer
            w.child_setup = T.default_child_setup(
                w, factory, pty_kw=dict(out_cap=cap, eof_flavour=scn.get('eof_flavour', 'eio')))
            if 'use_poll' in scn:
                kw['use_poll'] = scn['use_poll']
            child = T.SimSpawn('/bin/simchild', **kw)
        elif tr == 'pxssh':
            # a pxssh object: the diagnostic string must be buildable before login and afterwards
            def factory(proc, slave, pty):
                self.proc, self.pty = proc, pty
                pty.attr[1] &= ~OPOST
                proc.exit_gap_us = scn.get('exit_gap_us', 0)
                self.peer = peers.Actor(w, k, proc, peers.writer(slave, steps, self.wrote), react, 'child')
                return self.peer
            w.child_setup = T.default_child_setup(
                w, factory, pty_kw=dict(out_cap=cap, eof_flavour=scn.get('eof_flavour', 'eio')))
            kw2 = dict(kw)
            child = T.SimPxssh(**kw2)
            try:
                self.pre_login_str = str(child)
            except Exception as e:
                self.pre_login_str = e
            pexpect.spawn._spawn(child, '/bin/simssh')
        elif tr == 'sock':
            a, bb = k.socketpair(cap)
            self.sock = shim.FakeSocket(a, timeout=scn.get('sock_timeout'))
            self.sock_end = bb
            self.peer = peers.Actor(w, k, None, peers.writer(bb, steps, self.wrote), react, 'peer')
            self.peer.start(0)
            child = T.SimSocketSpawn(self.sock, **kw)
        elif tr == 'popen':
            def setup(cmd):
                proc = k.new_proc('child')
                self.proc = proc
                in_r, in_w = k.pipe(cap)
                out_r, out_w = k.pipe(cap)
                proc.handles += [in_r, out_w]
                proc.exit_gap_us = scn.get('exit_gap_us', 0)
                self.peer = peers.Actor(w, k, proc, peers.writer(out_w, steps, self.wrote), react, 'child')
                self.peer.start(0)
                self.popen_in = in_r
                self.popen_out = out_r
                return proc, in_w, out_r
            w.popen_setup = setup
            child = T.SimPopenSpawn(['simchild'], **kw)
        else:
            raise HarnessError('unknown transport %r' % (tr,))
        if scn.get('ignorecase'):
            child.ignorecase = True
        for attr in ('delayafterread', 'delaybeforesend', 'delayafterclose', 'delayafterterminate'):
            if attr in scn:
                setattr(child, attr, scn[attr])
        self.child = child
        self._wrap_calls(child)
        return child

    def peer_steps(self):
        out = []
        for st in self.scn.get('peer', []):
            st = dict(st)
            if 'd' in st:
                st['d'] = b(st['d'])
            out.append(st)
        return out

    # ------------------------------------------------- primitive call log
    def _wrap_calls(self, child):
        run = self
        cls = type(child)
        orig_list = cls.expect_list
        orig_exact = cls.expect_exact

        def ended_now():
            """Kernel truth at call entry: the peer has ended the stream and nothing is left unread (None: not known)."""
            try:
                tr = run.scn.get('transport')
                if (tr in ('pty', 'pxssh') or run.scn.get('fd_kind') == 'tty') and getattr(run, 'pty', None) is not None:
                    return bool(run.pty.hung_up() and not run.pty.out)
                if tr == 'fd' and getattr(run, 'fd_pipe', None) is not None:
                    return bool(run.fd_pipe.p.writers == 0 and not run.fd_pipe.p.buf)
                if tr == 'sock' and getattr(run, 'sock', None) is not None:
                    end = run.sock._end
                    return bool(end.rx.wr_closed and not end.rx.buf and not end.reset)
            except Exception:
                return None
            return None
        run.ended_now = ended_now

        def snap(api, plist, timeout, sws, c0, t0, outcome, is_async=False):
            run.calls.append({
                'async': is_async, 'ended_at_entry': run._ended_at_entry.pop(t0, None),
                'api': api, 'plist': plist, 'timeout': timeout, 'sws': sws,
                'inst_sws': child.searchwindowsize, 'inst_timeout': child.timeout,
                'c0': c0, 'c1': len(child.chunks), 't0': t0, 't1': run.w.now,
                'outcome': outcome, 'before': child.before, 'after': child.after,
                'buffer': child.buffer, 'match': child.match,
                'match_index': child.match_index, 'op': run.w.op_index})

        def expect_list(pattern_list, timeout=-1, searchwindowsize=-1, async_=False, **kw):
            if async_ or kw.get('async'):
                return orig_list(child, pattern_list, timeout, searchwindowsize, async_, **kw)
            c0, t0 = len(child.chunks), run.w.now
            run._ended_at_entry[t0] = ended_now()
            try:
                r = orig_list(child, pattern_list, timeout, searchwindowsize)
            except BaseException as e:
                snap('list', list(pattern_list), timeout, searchwindowsize, c0, t0, ('exc', e))
                raise
            snap('list', list(pattern_list), timeout, searchwindowsize, c0, t0, ('ret', r))
            return r

        def expect_exact(pattern_list, timeout=-1, searchwindowsize=-1, async_=False, **kw):
            if async_ or kw.get('async'):
                return orig_exact(child, pattern_list, timeout, searchwindowsize, async_, **kw)
            c0, t0 = len(child.chunks), run.w.now
            if isinstance(pattern_list, child.allowed_string_types) or pattern_list in (TIMEOUT, EOF):
                pl = [pattern_list]
            else:
                pl = list(pattern_list)
            coerce = getattr(child, '_coerce_expect_string', None) or \
                (lambda x: x if child.encoding is not None or isinstance(x, bytes) else x.encode('ascii'))
            pl = [p if p in (TIMEOUT, EOF) else coerce(p) for p in pl]
            run._ended_at_entry[t0] = ended_now()
            try:
                r = orig_exact(child, pattern_list, timeout, searchwindowsize)
            except BaseException as e:
                snap('exact', pl, timeout, searchwindowsize, c0, t0, ('exc', e))
                raise
            snap('exact', pl, timeout, searchwindowsize, c0, t0, ('ret', r))
            return r
        child.expect_list = expect_list
        child.expect_exact = expect_exact
        run.snap_call = snap

    # -------------------------------------------------------------- driver
    def conv(self, s):
        """JSON pattern/value text -> the child's string type."""
        if self.child.encoding is None:
            return s.encode('latin-1')
        return s

    def build_plist(self, pats, exact):
        out = []
        for p in pats:
            t = p['t']
            if t == 'EOF':
                out.append(EOF)
            elif t == 'TIMEOUT':
                out.append(TIMEOUT)
            elif exact:
                out.append(self.conv(p['p']))
            else:
                fl = p.get('fl') or ''
                flags = re.DOTALL | (re.VERBOSE if 'x' in fl else 0) | (re.IGNORECASE if 'i' in fl else 0)
                src = self.conv(p['p'])
                if p.get('ot'):
                    # compiled from the OTHER string type (str for a bytes-mode object, bytes for a unicode-mode one):
                    # expect() converts such a pattern; it means what it says, flags included
                    src = src.decode('utf-8') if isinstance(src, bytes) else src.encode('utf-8')
                    self.w.probe('compiled_pattern_of_the_other_string_type')
                out.append(re.compile(src, flags))
        return out

    def do_op(self, k, op):
        """Execute one driver op; returns outcome record."""
        w = self.w
        child = self.child
        w.begin_op(k)
        kind = op['op']
        rec = {'k': k, 'op': kind, 't0': w.now, 'cost0': w.cost_total, 'c0': len(child.chunks) if child is not None and hasattr(child, 'chunks') else 0}
        w.note('op', (k, kind))
        try:
            w.intr_armed = True
            try:
                rec['ret'] = self.dispatch(kind, op)
            finally:
                w.intr_armed = False
            rec['out'] = 'ret'
        except EOF as e:
            rec['out'] = 'EOF'
            rec['exc'] = e
        except TIMEOUT as e:
            rec['out'] = 'TIMEOUT'
            rec['exc'] = e
        except SimHang as e:
            rec['out'] = 'HANG'
            rec['exc'] = e
        except SimShutdown:
            raise
        except HarnessError:
            raise
        except SimInterrupt as e:
            rec['out'] = 'INTR'          # abandoned from outside (Ctrl-C / a raising signal handler) while it waited
            rec['exc'] = e
        except Exception as e:
            rec['out'] = 'EXC'
            rec['exc'] = e
            rec['site'] = _tb_site(e)
        rec['t1'] = w.now
        rec['cost'] = w.cost_total - rec['cost0']
        if self.scn.get('transport') == 'pty' and hasattr(child, 'eof') and kind not in ('close',) and not getattr(child, 'closed', False):
            # spawn.eof(): 'True if the EOF exception was ever raised' (public, pty only)
            try:
                rec['eof_flag'] = bool(child.eof())
                rec['hung_up'] = self.ended_now() if hasattr(self, 'ended_now') else None
            except Exception as e:
                rec['eof_flag'] = e
        rec['c1'] = len(child.chunks) if child is not None and hasattr(child, 'chunks') else 0
        self.ops.append(rec)
        return rec

    def dispatch(self, kind, op):
        child = self.child
        w = self.w
        if kind == 'gap':
            w.sleep(op['dt'])
            return None
        if kind == 'expect':
            api = op.get('api', 'expect')
            to = op.get('to', -1)
            sws = op.get('sws', -1)
            if api == 'expect_exact':
                if op.get('pos'):
                    return child.expect_exact(self.build_plist(op['pats'], True), to, sws)
                return child.expect_exact(self.build_plist(op['pats'], True), timeout=to, searchwindowsize=sws)
            pl = self.build_plist(op['pats'], False)
            if api == 'expect_list':
                if op.get('pos'):
                    return child.expect_list(pl, to, sws)
                return child.expect_list(pl, timeout=to, searchwindowsize=sws)
            if api == 'expect_loop':
                from pexpect.expect import searcher_re
                return child.expect_loop(searcher_re(pl), timeout=to, searchwindowsize=sws)
            if op.get('raw'):
                self.raw_calls.add(self.w.op_index)
                # uncompiled strings: pexpect compiles them itself (DOTALL, + IGNORECASE when ignorecase is set)
                pl = [(EOF if p['t'] == 'EOF' else TIMEOUT if p['t'] == 'TIMEOUT' else self.conv(p['p'])) for p in op['pats']]
                prev = getattr(self, '_prev_raw_list', None)
                if op.get('same_list') and prev is not None:
                    # the caller keeps ONE list object and edits it in place between calls
                    prev[:] = pl
                    pl = prev
                self._prev_raw_list = pl
            if len(pl) == 1 and op.get('single'):
                pl = pl[0]
            if op.get('pos'):
                return child.expect(pl, to, sws)         # the same call with positional arguments
            return child.expect(pl, timeout=to, searchwindowsize=sws)
        if kind == 'read':
            return child.read(op.get('n', -1))
        if kind == 'readline':
            return child.readline()
        if kind == 'readlines':
            return child.readlines()
        if kind == 'iter':
            out = []
            for line in child:
                out.append(line)
                if len(out) > 10000:
                    raise HarnessError('runaway iteration')
            return out
        if kind == 'str':
            return str(child)
        if kind == 'setbuf':
            child.buffer = self.conv(op['v'])
            return None
        if kind == 'setattr':
            if op['k'] not in ('searchwindowsize', 'maxread', 'timeout', 'delayafterread') or (op['k'] == 'maxread' and not op['v']):
                raise HarnessError('setattr of %r' % (op.get('k'),))
            setattr(child, op['k'], op['v'])
            self.w.probe('attribute_changed_between_calls')
            return None
        if kind == 'rnb':
            if op.get('kw'):
                return child.read_nonblocking(size=op.get('size', 1), timeout=op.get('to', -1))
            return child.read_nonblocking(op.get('size', 1), op.get('to', -1))
        if kind == 'send':
            return child.send(self.sconv(op['d'], op.get('as')))
        if kind == 'sendline':
            return child.sendline(self.sconv(op['d'], op.get('as')))
        if kind == 'write':
            return child.write(self.sconv(op['d'], op.get('as')))
        if kind == 'writelines':
            return child.writelines([self.sconv(x, op.get('as')) for x in op['d']])
        if kind == 'sendcontrol':
            return child.sendcontrol(op['c'])
        if kind == 'sendeof':
            return child.sendeof()
        if kind == 'sendintr':
            return child.sendintr()
        if kind == 'isalive':
            return child.isalive()
        if kind == 'wait':
            return child.wait()
        if kind == 'close':
            if 'force' in op:
                return child.close(force=op['force'])
            return child.close()
        if kind == 'terminate':
            return child.terminate(force=op.get('force', False))
        if kind == 'kill':
            return child.kill(op['sig'])
        if kind == 'waitnoecho':
            return child.waitnoecho(op.get('to', -1))
        raise HarnessError('unknown op %r' % (kind,))

    def sconv(self, s, as_=None):
        """Payload for the send family.  as_: 'bytes'|'text'|None (native)."""
        if as_ == 'bytes':
            return s.encode('latin-1')
        if as_ == 'text':
            return s
        return self.conv(s)

    # ------------------------------------------------------------ teardown
    def finish(self):
        w = self.w
        try:
            for ref in w.ptyprocs:
                pp_ = ref()
                if pp_ is not None:
                    pp_.closed = True      # __del__ must not touch a dead world
        finally:
            w.teardown()
            shim.set_world(None)


def _tb_site(e):
    tb = e.__traceback__
    site = None
    while tb is not None:
        fn = tb.tb_frame.f_code.co_filename
        if ('/pexpect/' in fn or '/ptyprocess/' in fn) and '/simpex/' not in fn:
            site = (fn.rsplit('/', 1)[-1], tb.tb_frame.f_code.co_name, tb.tb_lineno)
        tb = tb.tb_next
    return site


def run_with(scn, body):
    """Execute body(run) in a fresh world with gc disabled; always tears down."""
    was = gc.isenabled()
    gc.disable()
    run = Run(scn)
    try:
        res = body(run)
        if run.w.faults.get('eintr') and isinstance(res, tuple) and len(res) == 2 and res[0]:
            # A tree that relies on the interpreter to retry interrupted waits (PEP 475: true on every CPython the checks
            # can run on) lets the injected InterruptedError escape.  That is not a violation of any property on this
            # runtime, so such a run is set aside (and counted) instead of judged; a tree that CATCHES the interruption
            # and then mishandles the deadline is judged as usual.
            if any('InterruptedError' in (v.msg or '') or 'InterruptedError' in repr(v.detail) for v in res[0]):
                info = res[1]
                info.setdefault('counters', {})['set_aside:eintr_not_caught'] = 1
                res = ([], info)
        return res
    finally:
        run.finish()
        if was:
            gc.enable()
