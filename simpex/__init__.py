"""simpex: deterministic simulation of pexpect against a simulated kernel."""
