"""Seams: module-attribute proxies that route pexpect's / ptyprocess' / asyncio's
calls to os, time, select, termios, fcntl, tty, subprocess, threading and queue
into the simulated kernel.  Installed once per process; `W` is the world of the
run in progress.  Descriptors below FD_BASE and anything not intercepted are
forwarded to the real module.
"""
import errno
import os as _os
import queue as _queue
import select as _select
import struct
import sys
import termios as _termios
import time as _time
import tty as _tty
import fcntl as _fcntl
import subprocess as _subprocess
import threading as _threading
import socket as _socket

from .kernel import FD_BASE, oserr, Kernel
from .world import World, SimHang, HarnessError

W = None          # current World
K = None          # its Kernel


def set_world(world):
    global W, K
    W = world
    K = world.kernel if world is not None else None


def _us(seconds):
    return int(round(seconds * 1000000.0))


def _dig(data):
    if isinstance(data, (bytes, bytearray)):
        return (len(data), bytes(data[:24]))
    return data


class ModProxy(object):
    def __init__(self, real, **over):
        object.__setattr__(self, '_real', real)
        object.__setattr__(self, '_over', dict(over))
        for k, v in over.items():
            object.__setattr__(self, k, v)

    def __getattr__(self, name):
        return getattr(self._real, name)


# ------------------------------------------------------------------- os
def _simfd(fd):
    return type(fd) is int and (fd >= FD_BASE or (K is not None and fd in K.low))


def os_read(fd, n):
    if not _simfd(fd):
        if type(fd) is int and fd < 0:
            W.sys_enter('read')
            W.log('read', (fd, n), 'EBADF')
            raise oserr(errno.EBADF)
        if W is not None:
            W.probe('real_fd_call')      # a pass-through to the real kernel would escape the simulation
        return _os.read(fd, n)
    W.sys_enter('read')
    K.touch(fd, 'read')
    try:
        of = K.get(fd)
        if not of.readable():
            if getattr(of, 'nonblock', False):
                raise BlockingIOError(errno.EAGAIN, 'Resource temporarily unavailable')
            W.block(of.readable, None, 'read(%d)' % fd)
        data = of.read_now(n)
    except OSError as e:
        W.log('read', (fd, n), 'E%s' % e.errno)
        raise
    W.log('read', (fd, n), _dig(data))
    if W.on_read is not None:
        W.on_read(fd, data)
    return data


def os_write(fd, data):
    if not _simfd(fd):
        if type(fd) is int and fd < 0:
            W.sys_enter('write')
            W.log('write', (fd, len(data)), 'EBADF')
            raise oserr(errno.EBADF)
        if W is not None:
            W.probe('real_fd_call')
        return _os.write(fd, data)
    W.sys_enter('write')
    K.touch(fd, 'write')
    data = bytes(data)
    total = 0
    try:
        of = K.get(fd)
        short = W.short_write(len(data)) if fd == W.short_fd else 0
        rest = data[:short] if short else data
        while rest:
            if of.write_room() <= 0:
                W.block(lambda: of.write_room() > 0, None, 'write(%d)' % fd)
            n = of.write_now(rest)
            total += n
            rest = rest[n:]
    except OSError as e:
        W.log('write', (fd, _dig(data)), 'E%s' % e.errno)
        raise
    W.log('write', (fd, _dig(data)), total)
    return total


def os_close(fd):
    if not _simfd(fd):
        if type(fd) is int and fd < 0:
            W.sys_enter('close')
            W.log('close', (fd,), 'EBADF')
            raise oserr(errno.EBADF)
        return _os.close(fd)
    W.sys_enter('close')
    K.touch(fd, 'close')
    try:
        K.close_fd(fd)
    except OSError as e:
        W.log('close', (fd,), 'E%s' % e.errno)
        raise
    W.log('close', (fd,), 0)


class _Stat(object):
    st_mode = 0o020620   # character device
    st_size = 0


class _StatFifo(object):
    st_mode = 0o010600
    st_size = 0


class _StatSock(object):
    st_mode = 0o140777
    st_size = 0


def os_fstat(fd):
    if not _simfd(fd):
        if type(fd) is int and fd < 0:
            raise oserr(errno.EBADF)
        return _os.fstat(fd)
    W.sys_enter('fstat')
    K.touch(fd, 'fstat')
    try:
        of = K.get(fd)
    except OSError:
        W.log('fstat', (fd,), 'EBADF')
        raise
    W.log('fstat', (fd,), 0)
    if of.kind.startswith('pipe'):
        return _StatFifo()
    if of.kind == 'sock':
        return _StatSock()
    return _Stat()


def os_isatty(fd):
    if not _simfd(fd):
        if type(fd) is int and fd < 0:
            return False
        return _os.isatty(fd)
    W.sys_enter('isatty')
    K.touch(fd, 'isatty')
    of = K.fds.get(fd)
    r = bool(of is not None and of.istty)
    W.log('isatty', (fd,), r)
    return r


def os_kill(pid, sig):
    if not (type(pid) is int and pid >= 50000 and pid in K.procs):
        W.sys_enter('kill')
        W.log('kill', (pid, int(sig)), 'ESRCH')
        raise oserr(errno.ESRCH)
    W.sys_enter('kill')
    try:
        K.kill(pid, sig)
    except OSError as e:
        W.log('kill', (pid, int(sig)), 'E%s' % e.errno)
        raise
    W.log('kill', (pid, int(sig)), 0)


def os_waitpid(pid, options):
    W.sys_enter('waitpid')
    try:
        r = K.waitpid(pid, options)
    except OSError as e:
        W.log('waitpid', (pid, options), 'E%s' % e.errno)
        raise
    W.log('waitpid', (pid, options), r)
    return r


def os_set_blocking(fd, flag):
    if not _simfd(fd):
        return _os.set_blocking(fd, flag)
    W.sys_enter('set_blocking')
    of = K.get(fd)
    of.nonblock = not flag
    W.log('set_blocking', (fd, flag), 0)


def os_get_blocking(fd):
    if not _simfd(fd):
        return _os.get_blocking(fd)
    return not getattr(K.get(fd), 'nonblock', False)


os_proxy = ModProxy(_os, read=os_read, write=os_write, close=os_close,
                    fstat=os_fstat, isatty=os_isatty, kill=os_kill,
                    waitpid=os_waitpid, set_blocking=os_set_blocking,
                    get_blocking=os_get_blocking)


# ----------------------------------------------------------------- time
def t_time():
    W.sys_enter('time')
    return W.time()


def t_sleep(dt):
    W.sys_enter('sleep')
    if dt < 0:
        raise ValueError('sleep length must be non-negative')
    W.sleep_interruptible(_us(dt))
    W.log('sleep', (dt,), None)


def t_monotonic():
    W.sys_enter('monotonic')
    return W.time()


def t_ns():
    W.sys_enter('time')
    return int(W.now) * 1000


# every clock a refactored deadline computation might read is the virtual one
time_proxy = ModProxy(_time, time=t_time, sleep=t_sleep, monotonic=t_monotonic, perf_counter=t_monotonic,
                      time_ns=t_ns, monotonic_ns=t_ns, perf_counter_ns=t_ns)


# --------------------------------------------------------------- select
def _check_fds(fds):
    out = []
    for fd in fds:
        if hasattr(fd, 'fileno'):
            fd = fd.fileno()
        if type(fd) is not int:
            raise TypeError('argument must be an int, or have a fileno() method.')
        if fd < 0:
            raise ValueError('file descriptor cannot be a negative integer (%d)' % fd)
        if _simfd(fd):
            K.touch(fd, 'select')
            if fd not in K.fds:
                raise oserr(errno.EBADF)
        out.append(fd)
    return out


def _ready_r(fd):
    if not _simfd(fd):
        return False
    of = K.fds.get(fd)
    return of is None or of.readable()


def sel_select(rlist, wlist, xlist, timeout=None):
    W.sys_enter('select')
    try:
        r = _check_fds(rlist)
        w = _check_fds(wlist)
        _check_fds(xlist)
    except (OSError, ValueError) as e:
        W.log('select', (tuple(rlist), timeout), type(e).__name__)
        raise
    if timeout is not None and timeout < 0:
        raise ValueError('timeout must be non-negative')
    if any(fd - FD_BASE >= 1024 for fd in r + w if fd >= FD_BASE):
        # FD_SETSIZE: what use_poll=True exists for
        W.log('select', (tuple(r), timeout), 'ValueError')
        raise ValueError('filedescriptor out of range in select()')

    def ready():
        for fd in r:
            if _ready_r(fd):
                return True
        return bool(w)
    if not ready() and (timeout is None or timeout > 0):
        W.wait_interruptible(ready, None if timeout is None else _us(timeout), 'select%r' % (tuple(r),))
    rr = [fd for fd in r if _ready_r(fd)]
    W.log('select', (tuple(r), timeout), tuple(rr))
    return (rr, list(w), [])


class SimPoll(object):
    def __init__(self):
        self.reg = {}

    def register(self, fd, mask=_select.POLLIN | _select.POLLPRI | _select.POLLOUT):
        if hasattr(fd, 'fileno'):
            fd = fd.fileno()
        if fd < 0:
            raise ValueError('file descriptor cannot be a negative integer (%d)' % fd)
        self.reg[fd] = mask

    def modify(self, fd, mask):
        self.reg[fd] = mask

    def unregister(self, fd):
        del self.reg[fd]

    def _events(self):
        out = []
        for fd, mask in self.reg.items():
            if not _simfd(fd):
                continue
            K.touch(fd, 'poll')
            of = K.fds.get(fd)
            if of is None:
                out.append((fd, _select.POLLNVAL))
                continue
            ev = 0
            if of.readable():
                if of.hup():
                    # data still buffered -> POLLIN|POLLHUP, else POLLHUP only
                    try_in = getattr(of, 'kind', '') and _has_data(of)
                    ev |= _select.POLLHUP
                    if try_in:
                        ev |= _select.POLLIN
                else:
                    ev |= _select.POLLIN
            ev &= (mask | _select.POLLHUP | _select.POLLERR | _select.POLLNVAL)
            if ev:
                out.append((fd, ev))
        return out

    def poll(self, timeout=None):
        W.sys_enter('poll')
        if timeout is not None and timeout < 0:
            timeout = None
        if timeout is not None and timeout > 2147483647:
            # milliseconds in a C int: what the real poll() object says to anything above 24.8 days
            W.log('poll', (tuple(self.reg), timeout), 'OverflowError')
            raise OverflowError('timeout is too large')
        if not self._events() and (timeout is None or timeout > 0):
            W.wait_interruptible(lambda: bool(self._events()),
                                 None if timeout is None else int(round(timeout * 1000.0)), 'poll')
        ev = self._events()
        W.log('poll', (tuple(self.reg), timeout), tuple(ev))
        return ev


def _has_data(of):
    k = of.kind
    if k == 'pipe_r':
        return bool(of.p.buf)
    if k == 'pty_m':
        return bool(of.pty.out)
    if k == 'sock':
        return bool(of.rx.buf)
    return False


select_proxy = ModProxy(_select, select=sel_select, poll=SimPoll)


# -------------------------------------------------------------- termios
def _ttyof(fd):
    if hasattr(fd, 'fileno'):
        fd = fd.fileno()
    K.touch(fd, 'termios')
    of = K.fds.get(fd)
    if of is None:
        raise _termios.error(errno.EBADF, 'Bad file descriptor')
    if not of.istty:
        raise _termios.error(errno.ENOTTY, 'Inappropriate ioctl for device')
    return of


def tc_getattr(fd):
    if not _simfd(fd if not hasattr(fd, 'fileno') else fd.fileno()):
        return _termios.tcgetattr(fd)
    W.sys_enter('tcgetattr')
    K.touch(fd if not hasattr(fd, 'fileno') else fd.fileno(), 'tcgetattr')
    of = _ttyof(fd)
    a = of.pty.attr
    r = [a[0], a[1], a[2], a[3], a[4], a[5], list(a[6])]
    W.log('tcgetattr', (fd,), (a[0], a[1], a[3]))
    return r


def tc_setattr(fd, when, attr):
    if not _simfd(fd if not hasattr(fd, 'fileno') else fd.fileno()):
        return _termios.tcsetattr(fd, when, attr)
    W.sys_enter('tcsetattr')
    K.touch(fd if not hasattr(fd, 'fileno') else fd.fileno(), 'tcsetattr')
    of = _ttyof(fd)
    of.pty.attr = [attr[0], attr[1], attr[2], attr[3], attr[4], attr[5], list(attr[6])]
    if when == _termios.TCSAFLUSH:
        # discard unread input on the terminal side
        pass
    W.log('tcsetattr', (fd, when), (attr[0], attr[1], attr[3]))
    K.kick()


termios_proxy = ModProxy(_termios, tcgetattr=tc_getattr, tcsetattr=tc_setattr)


def tty_setraw(fd, when=_termios.TCSAFLUSH):
    mode = tc_getattr(fd)
    new = [mode[0], mode[1], mode[2], mode[3], mode[4], mode[5], list(mode[6])]
    T = _termios
    new[0] &= ~(T.IGNBRK | T.BRKINT | T.IGNPAR | T.PARMRK | T.INPCK | T.ISTRIP |
                T.INLCR | T.IGNCR | T.ICRNL | T.IXON | T.IXANY | T.IXOFF)
    new[1] &= ~T.OPOST
    new[2] &= ~(T.PARENB | T.CSIZE)
    new[2] |= T.CS8
    new[3] &= ~(T.ECHO | T.ECHOE | T.ECHOK | T.ECHONL | T.ICANON | T.IEXTEN |
                T.ISIG | T.NOFLSH | T.TOSTOP)
    new[6][T.VMIN] = 1
    new[6][T.VTIME] = 0
    tc_setattr(fd, when, new)
    return mode


tty_proxy = ModProxy(_tty, tcgetattr=tc_getattr, tcsetattr=tc_setattr, setraw=tty_setraw)


# ---------------------------------------------------------------- fcntl
def fc_ioctl(fd, req, arg=0, mutate=True):
    f = fd.fileno() if hasattr(fd, 'fileno') else fd
    if not _simfd(f):
        return _fcntl.ioctl(fd, req, arg, mutate)
    W.sys_enter('ioctl')
    K.touch(f, 'ioctl')
    of = K.fds.get(f)
    if of is None:
        raise oserr(errno.EBADF)
    if not of.istty:
        raise oserr(errno.ENOTTY)
    if req == _termios.TIOCGWINSZ:
        r, c = of.pty.winsize
        W.log('ioctl', (f, 'GWINSZ'), (r, c))
        return struct.pack('HHHH', r, c, 0, 0)
    if req == _termios.TIOCSWINSZ:
        r, c, _, _ = struct.unpack('HHHH', arg)
        of.pty.winsize = (r, c)
        W.log('ioctl', (f, 'SWINSZ'), (r, c))
        return 0
    raise oserr(errno.EINVAL)


fcntl_proxy = ModProxy(_fcntl, ioctl=fc_ioctl)


# ---------------------------------------------------------- threading/queue
class SimThreadObj(object):
    _count = 0

    def __init__(self, group=None, target=None, name=None, args=(), kwargs=None, daemon=None):
        self._target = target
        self._args = args
        self._kwargs = kwargs or {}
        self.daemon = daemon
        SimThreadObj._count += 1
        self.name = name or 'T%d' % (len(W.threads))
        self._st = None

    def start(self):
        W.sys_enter('thread_start')
        tgt, a, kw = self._target, self._args, self._kwargs
        self._st = W.spawn_thread(self.name, lambda: tgt(*a, **kw))
        W.log('thread_start', (self.name,), None)

    def is_alive(self):
        # a pre-emption point like every other intercepted call: the other thread may run (and finish) right here
        if W is not None and not W.shutdown:
            W.sys_enter('thread_is_alive')
        return self._st is not None and self._st.state != 'done'

    def join(self, timeout=None):
        st = self._st
        if st is None:
            raise RuntimeError('cannot join thread before it is started')
        W.sys_enter('join')
        W.block(lambda: st.state == 'done',
                None if timeout is None else _us(timeout), 'join')


threading_proxy = ModProxy(_threading, Thread=SimThreadObj)


class SimQueue(_queue.Queue):
    """queue.Queue with pre-emption points; the lock inside is real but never
    contended because only the baton holder runs."""

    def put(self, item, block=True, timeout=None):
        W.sys_enter('q_put')
        _queue.Queue.put(self, item, block, timeout)
        W.log('q_put', (_dig(item),), None)
        K.kick()

    def get_nowait(self):
        W.sys_enter('q_get')
        try:
            r = _queue.Queue.get(self, False)
        except _queue.Empty:
            W.log('q_get', (), 'Empty')
            raise
        W.log('q_get', (), _dig(r))
        return r

    def get(self, block=True, timeout=None):
        if not block:
            return self.get_nowait()
        W.sys_enter('q_get')
        ok = W.block(lambda: not self.empty(),
                     None if timeout is None else _us(timeout), 'q_get')
        if not ok:
            raise _queue.Empty
        return _queue.Queue.get(self, False)


# ------------------------------------------------------------ subprocess
class _PipeFile(object):
    def __init__(self, fd):
        self.fd = fd
        self.closed = False

    def fileno(self):
        if self.closed:
            raise ValueError('I/O operation on closed file')
        return self.fd

    def write(self, b):
        if self.closed:
            raise ValueError('write to closed file')
        return os_write(self.fd, b)

    def read(self, n=-1):
        return os_read(self.fd, n if n >= 0 else 65536)

    def flush(self):
        pass

    def close(self):
        if not self.closed:
            self.closed = True
            os_close(self.fd)


class FakePopen(object):
    """subprocess.Popen stand-in: the child is a sim process on two sim pipes."""

    def __init__(self, cmd, bufsize=-1, stdin=None, stdout=None, stderr=None,
                 cwd=None, preexec_fn=None, env=None, **kw):
        setup = W.popen_setup
        if setup is None:
            raise HarnessError('no popen_setup in this world')
        W.sys_enter('popen')
        proc, in_w, out_r = setup(cmd)
        self._proc = proc
        self.pid = proc.pid
        self.args = cmd
        self.stdin = _PipeFile(K.alloc_fd(in_w))
        self.stdout = _PipeFile(K.alloc_fd(out_r))
        self.stderr = None
        self.returncode = None
        W.log('popen', (), self.pid)

    def _decode(self, status):
        if status & 0x7f:
            return -(status & 0x7f)
        return (status >> 8) & 0xff

    def poll(self):
        if self.returncode is None:
            try:
                pid, st = os_waitpid(self.pid, _os.WNOHANG)
            except OSError:
                return self.returncode
            if pid:
                self.returncode = self._decode(st)
        return self.returncode

    def wait(self, timeout=None):
        if self.returncode is None:
            pid, st = os_waitpid(self.pid, 0)
            self.returncode = self._decode(st)
        return self.returncode

    def kill(self):
        os_kill(self.pid, 9)

    def terminate(self):
        os_kill(self.pid, 15)

    def send_signal(self, sig):
        os_kill(self.pid, sig)


subprocess_proxy = ModProxy(_subprocess, Popen=FakePopen)


# ------------------------------------------------------------ FakeSocket
class FakeSocket(object):
    """A connected stream socket whose other end is a sim peer."""

    def __init__(self, end, timeout=None):
        self._end = end
        self._fd = K.alloc_fd(end)
        self._timeout = timeout
        self.timeout_log = []

    def fileno(self):
        return self._fd

    def gettimeout(self):
        return self._timeout

    def settimeout(self, t):
        if t is not None:
            t = float(t)
            if t < 0:
                raise ValueError('Timeout value out of range')
        self._timeout = t
        self.timeout_log.append(t)

    def setblocking(self, flag):
        self.settimeout(None if flag else 0.0)

    def recv(self, n, flags=0):
        W.sys_enter('recv')
        if self._fd < 0:
            W.log('recv', (n,), 'EBADF')
            raise oserr(errno.EBADF)
        K.touch(self._fd, 'recv')
        end = self._end
        t = self._timeout
        try:
            if not end.readable():
                if t is not None and t == 0:
                    raise BlockingIOError(errno.EAGAIN, 'Resource temporarily unavailable')
                ok = W.wait_plain(end.readable, None if t is None else _us(t), 'recv')
                if not ok:
                    raise _socket.timeout('timed out')
            data = end.read_now(n)
        except OSError as e:
            W.log('recv', (n, t), type(e).__name__)
            raise
        W.log('recv', (n, t), _dig(data))
        return data

    def sendall(self, data, flags=0):
        W.sys_enter('sendall')
        if self._fd < 0:
            raise oserr(errno.EBADF)
        K.touch(self._fd, 'sendall')
        end = self._end
        rest = bytes(data)
        t = self._timeout
        deadline = None if t is None else W.now + _us(t)
        try:
            while rest:
                if end.write_room() <= 0:
                    # like the real thing: the socket's own timeout bounds the whole sendall
                    if t is not None and t == 0:
                        raise BlockingIOError(errno.EAGAIN, 'Resource temporarily unavailable')
                    ok = W.block(lambda: end.write_room() > 0, None if deadline is None else max(0, deadline - W.now), 'sendall')
                    if not ok:
                        raise _socket.timeout('timed out')
                n = end.write_now(rest)
                rest = rest[n:]
        except OSError as e:
            W.log('sendall', (_dig(data),), type(e).__name__)
            raise
        W.log('sendall', (_dig(data),), None)

    def send(self, data, flags=0):
        # a blocking socket queues everything (like sendall); one with a timeout (or non-blocking) takes what fits into
        # the send buffer right now and reports how much that was
        if self._timeout is None:
            self.sendall(data)
            return len(data)
        W.sys_enter('send')
        if self._fd < 0:
            raise oserr(errno.EBADF)
        K.touch(self._fd, 'send')
        end = self._end
        t = self._timeout
        try:
            if end.write_room() <= 0:
                if t == 0:
                    raise BlockingIOError(errno.EAGAIN, 'Resource temporarily unavailable')
                if not W.block(lambda: end.write_room() > 0, _us(t), 'send'):
                    raise _socket.timeout('timed out')
            n = end.write_now(bytes(data))
        except OSError as e:
            W.log('send', (_dig(bytes(data)),), type(e).__name__)
            raise
        W.log('send', (_dig(bytes(data)),), n)
        return n

    def shutdown(self, how):
        W.sys_enter('shutdown')
        if self._fd < 0:
            raise oserr(errno.EBADF)
        K.touch(self._fd, 'shutdown')
        try:
            self._end.shutdown(how)
        except OSError as e:
            W.log('shutdown', (how,), 'E%s' % e.errno)
            raise
        W.log('shutdown', (how,), 0)

    def close(self):
        W.sys_enter('sock_close')
        if self._fd >= 0:
            K.touch(self._fd, 'close')
            fd = self._fd
            self._fd = -1
            if fd in K.fds and K.fds[fd] is self._end:
                K.close_fd(fd)
        W.log('sock_close', (), 0)

    def __repr__(self):
        return '<FakeSocket fd=%d>' % self._fd


# ----------------------------------------------------------- installation
_installed = False
_saved = []


def _rebind(mod, name, value):
    if hasattr(mod, name):
        _saved.append((mod, name, getattr(mod, name)))
        setattr(mod, name, value)


def install():
    """Rebind the seams.  Idempotent."""
    global _installed
    if _installed:
        return
    _installed = True
    import pexpect
    import pexpect.expect
    import pexpect.spawnbase
    import pexpect.pty_spawn
    import pexpect.utils
    import pexpect.fdpexpect
    import pexpect.popen_spawn
    import pexpect.pxssh
    import pexpect.run
    import pexpect.socket_pexpect
    import ptyprocess.ptyprocess as pp
    mods = [pexpect.expect, pexpect.spawnbase, pexpect.pty_spawn, pexpect.utils,
            pexpect.fdpexpect, pexpect.popen_spawn, pexpect.pxssh, pexpect.run,
            pexpect.socket_pexpect, pp]
    for m in mods:
        _rebind(m, 'os', os_proxy)
        _rebind(m, 'time', time_proxy)
        _rebind(m, 'select', select_proxy)
        _rebind(m, 'termios', termios_proxy)
        _rebind(m, 'fcntl', fcntl_proxy)
        _rebind(m, 'tty', tty_proxy)
        _rebind(m, 'subprocess', subprocess_proxy)
        _rebind(m, 'threading', threading_proxy)
    _rebind(pexpect.popen_spawn, 'Queue', SimQueue)

    class _PtyProcessSeam(object):
        """ptyprocess.PtyProcess as pexpect.pty_spawn sees it: spawn() creates a simulated child (the same thing the
        SimSpawn._spawnpty override does; this module-level seam keeps working if that private hook is renamed)."""

        def __getattr__(self, name):
            return getattr(pp.PtyProcess, name)

        def spawn(self, argv, **kwargs):
            from . import transports
            pid, fd = W.child_setup(argv, kwargs)
            inst = transports.SimPtyProcess(pid, fd)
            inst.argv = argv
            return inst
    import ptyprocess as _ptyprocess_pkg
    _rebind(pexpect.pty_spawn, 'ptyprocess', ModProxy(_ptyprocess_pkg, PtyProcess=_PtyProcessSeam()))
    _rebind(pexpect.pty_spawn, 'which', lambda c, env=None: c)
    pp._EOF = b'\x04'
    pp._INTR = b'\x03'
    # Two caller threads, each with its own spawn object (scenario flag twin_thread): a pre-emption point right after every
    # search, i.e. between a searcher computing its result and the engine reading it -- whatever two objects share there
    # (a cached searcher, class-level scratch attributes) is exposed by the other thread's search in between
    def _yield_after(cls):
        orig = cls.search

        def search(self, *a, **kw):
            res = orig(self, *a, **kw)
            if W is not None and len(W.threads) > 1 and W.scn.get('twin_thread'):
                W._yield_point()
            return res
        search.__wrapped__ = orig
        cls.search = search
    for cls in (pexpect.expect.searcher_string, pexpect.expect.searcher_re):
        if not hasattr(cls.search, '__wrapped__'):
            _yield_after(cls)
    # Aliases taken at import time (`_clock = time.monotonic`, `from os import read`, a class attribute holding select.poll):
    # rebinding the module attribute `time` would not reach them, so every global of the modules under test, and every
    # attribute of the classes they define, that IS one of the real functions behind a seam is rebound to its stand-in too.
    real = {}
    for proxy in (os_proxy, time_proxy, select_proxy, termios_proxy, fcntl_proxy, tty_proxy, subprocess_proxy, threading_proxy):
        for name, standin in proxy._over.items():
            try:
                real[id(getattr(proxy._real, name))] = standin
            except AttributeError:
                pass
    real[id(_queue.Queue)] = SimQueue
    for m in mods[:-1]:
        for name, val in list(vars(m).items()):
            if id(val) in real and not isinstance(val, ModProxy):
                setattr(m, name, real[id(val)])
            elif isinstance(val, type) and getattr(val, '__module__', None) == m.__name__:
                for an, av in list(vars(val).items()):
                    raw = av.__func__ if isinstance(av, (staticmethod, classmethod)) else av
                    try:
                        hit = id(raw) in real
                    except Exception:
                        hit = False
                    if hit:
                        setattr(val, an, staticmethod(real[id(raw)]) if isinstance(av, staticmethod) else real[id(raw)])


def repo_root():
    import pexpect
    return _os.path.dirname(_os.path.dirname(_os.path.abspath(pexpect.__file__)))
