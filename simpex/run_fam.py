"""C12 family: pexpect.run() against a scripted dialogue child."""
import re

import pexpect
import sys
import pexpect.run  # noqa
prun = sys.modules['pexpect.run']

from . import harness
from . import peers
from . import shim
from . import transports as T
from .engine import Violation, gen_costs, collect_info, gen_eintr
from .harness import EOF, TIMEOUT
from .kernel import OPOST, ECHO
from .world import SimHang, HarnessError


def gen_say(rng):
    n = rng.choice([0, 1, 3, 10, 40]) if rng.random() < 0.9 else rng.randint(200, 5000)
    return ''.join(rng.choice('xyz \r\n') for _ in range(n))


def generate(rng):
    scn = {'family': 'run', 'transport': 'pty'}
    scn['costs'] = gen_costs(rng)
    scn['enc'] = rng.choice([None, None, 'utf-8'])
    scn['timeout'] = rng.choice([0.05, 0.3, 2.0])
    scn['as'] = rng.choice(['list', 'dict', 'dict'])
    scn['withexitstatus'] = rng.random() < 0.6
    scn['code'] = rng.choice([0, 1, 42, 255])
    scn['hup_write'] = rng.choice(['ok', 'ok', 'ok', 'eio'])
    if rng.random() < 0.3:
        scn['tear'] = [rng.choice([0, 1, 2, 7]) for _ in range(rng.randint(1, 4))]
    toks = ['Q1?', 'Q2?', 'Q3?']
    events = []
    answered = {}
    for t in toks:
        if rng.random() < 0.7:
            r = rng.random()
            if r < 0.45:
                resp = {'kind': 'str', 'v': 'ans-%s\n' % t[:2]}
            elif r < 0.7:
                resp = {'kind': rng.choice(['fn', 'method']), 'ret': 'str', 'v': 'cb-%s\n' % t[:2]}
            elif r < 0.85:
                resp = {'kind': rng.choice(['fn', 'method']), 'ret': 'none'}
            else:
                resp = {'kind': 'fn', 'ret': 'true'}
            events.append({'pat': re.escape(t), 'tok': t, 'resp': resp})
            answered[t] = resp
    # overlapping pattern for priority order
    if events and rng.random() < 0.4:
        e = rng.choice(events)
        shadow = {'pat': re.escape(e['tok'][:2]), 'tok': e['tok'], 'resp': {'kind': 'str', 'v': 'shadow-%s\n' % e['tok'][:2]}, 'shadow': True}
        i = events.index(e)
        if rng.random() < 0.5:
            events.insert(i, shadow)       # shadow listed first: it wins
        else:
            events.insert(i + 1, shadow)   # listed after: never fires
    if events and rng.random() < 0.2:
        # the same pattern listed twice with different responses (e.g. the caller's entries in front of defaults):
        # the first listed one answers every occurrence
        e = rng.choice([x for x in events])
        dup = {'pat': e['pat'], 'tok': e['tok'], 'resp': {'kind': 'str', 'v': 'dup-%s\n' % e['tok'][:2]}, 'dup': True}
        events.append(dup)
        scn['as'] = 'list'
    if rng.random() < 0.35:
        events.insert(rng.randint(0, len(events)), {'pat': 'TIMEOUT', 'resp': {'kind': 'fn', 'ret': rng.choice(['none', 'none', 'true'])}})
    if rng.random() < 0.25:
        events.insert(rng.randint(0, len(events)), {'pat': 'EOF', 'resp': {'kind': 'fn', 'ret': 'true'}})
    rng.shuffle(events) if (scn['as'] == 'list' and rng.random() < 0.0) else None
    scn['events'] = events
    steps = []
    for _ in range(rng.randint(0, 8)):
        r = rng.random()
        dt = rng.choice([0, 5, 300, 20000, 400000])
        if r < 0.45:
            steps.append({'say': gen_say(rng), 'dt': dt})
        else:
            st_ = {'ask': rng.choice(toks), 'dt': dt}
            if rng.random() < 0.2:
                # the prompt comes out in two pieces with a pause inside it (shorter or longer than the timeout): a TIMEOUT
                # tick in between must leave the first half where the rest of the occurrence can still join it
                st_['split'] = [rng.randint(1, 2), int(scn['timeout'] * 1e6 * rng.choice([0.3, 1.5, 1.5, 3.2]))]
            steps.append(st_)
    if rng.random() < 0.2:
        steps.append({'silence': rng.choice([100000, 1000000, 5000000])})
    scn['steps'] = steps
    if rng.random() < 0.15:
        # spawn options passed through run(**kwargs).  With a search window an event pattern further back than the
        # window is legitimately not seen, so these runs carry marker events only (TIMEOUT / EOF): what is judged is
        # that the whole output comes back however the run ends
        scn['run_kwargs'] = {'searchwindowsize': rng.choice([1, 8, 64, 500])}
        scn['events'] = [e for e in events if e['pat'] in ('TIMEOUT', 'EOF')]
    elif rng.random() < 0.15:
        scn['run_kwargs'] = {'use_poll': True}
    if rng.random() < 0.05:
        # a callback changes how the child matches (ignorecase) through the state dictionary; a later prompt arrives in the
        # other case and must be answered like any other occurrence
        scn['ic_toggle'] = True
        scn['events'] = events = [{'pat': re.escape('Q1?'), 'tok': 'Q1?', 'resp': {'kind': rng.choice(['fn', 'method']), 'ret': 'none', 'side': 'ignorecase'}},
                                  {'pat': re.escape('Q2?'), 'tok': 'Q2?', 'resp': {'kind': 'str', 'v': 'ans-Q2\n'}}]
        scn['steps'] = steps = [{'say': gen_say(rng), 'dt': 5}, {'ask': 'Q1?', 'dt': rng.choice([0, 300])},
                                {'say': 'zz\r\n', 'dt': 300}, {'ask': 'q2?', 'dt': rng.choice([0, 300, 20000])},
                                {'say': 'bye\r\n', 'dt': 5}]
        scn['timeout'] = rng.choice([0.3, 2.0])
        scn.pop('run_kwargs', None)
    if rng.random() < 0.3:
        # run(logfile=...): the log is the transcript of the whole dialogue, reads and responses in the order they happened
        scn['logfile'] = True
        if rng.random() < 0.3:
            scn['log_kind'] = 'len'
    if rng.random() < 0.3:
        scn['extra_args'] = {'k': rng.randint(0, 99)}
    if enc_is_utf8(scn) and rng.random() < 0.3:
        scn['via'] = 'runu'            # the documented alias: run() with encoding='utf-8'
    gen_eintr(rng, scn)
    return scn


def enc_is_utf8(scn):
    return scn.get('enc') == 'utf-8'


class Handler(object):
    def __init__(self, log):
        self.log = log

    def method(self, d):
        return self._go(d)

    def _go(self, d):
        pass


def run(scn):
    sc = dict(scn)
    enc = scn.get('enc')
    for e in scn.get('events', []):
        if e['pat'] not in ('TIMEOUT', 'EOF'):
            try:
                re.compile(e['pat'])
            except re.error:
                raise HarnessError('invalid pattern in scenario')

    def body(r):
        w, k = r.w, r.k
        out = []
        received = []          # lines the dialogue child read, with the token it was waiting on
        ic_on = [False]        # a callback has switched the child to ignorecase
        waiting = [None]       # the prompt the dialogue child is waiting to have answered
        if scn.get('ic_toggle') and (len(scn.get('events', [])) != 2 or any(e.get('shadow') or e.get('dup') for e in scn['events'])):
            raise HarnessError('the ignorecase-toggle scenario has exactly its two events')
        said = []
        events = scn.get('events', [])

        def first_winner(tok):
            """Which event answers token tok: among patterns matching at the token's start the first listed."""
            for e in events:
                if e['pat'] in ('TIMEOUT', 'EOF'):
                    continue
                if re.match(e['pat'], tok, re.IGNORECASE if ic_on[0] else 0):
                    return e
            return None

        def child_gen(a):
            slave = a.proc.handles[0]
            buf = b''
            for st in scn.get('steps', []):
                if st.get('dt'):
                    yield ('sleep', st['dt'])
                if 'silence' in st:
                    yield ('sleep', st['silence'])
                    continue
                if 'say' in st:
                    d = st['say'].encode('latin-1')
                    try:
                        yield ('write', slave, d)
                    except OSError:
                        return
                    continue
                tok = st['ask']
                try:
                    if st.get('split'):
                        kcut, pause = st['split']
                        yield ('write', slave, tok[:kcut].encode('latin-1'))
                        yield ('sleep', int(pause))
                        yield ('write', slave, tok[kcut:].encode('latin-1'))
                    else:
                        yield ('write', slave, tok.encode('latin-1'))
                except OSError:
                    return
                win = first_winner(tok)
                waits = win is not None and (win['resp']['kind'] == 'str' or win['resp'].get('ret') == 'str')
                if not waits:
                    continue
                waiting[0] = tok
                while b'\n' not in buf:
                    try:
                        d = yield ('read', slave, 4096)
                    except OSError:
                        return
                    if not d:
                        return
                    buf += d
                line, _, buf = buf.partition(b'\n')
                waiting[0] = None
                received.append((tok, line + b'\n'))
            yield ('sleep', 10)
            yield ('exit', scn.get('code', 0))

        def factory(proc, slave, pty):
            r.proc, r.pty = proc, pty
            pty.attr[1] &= ~OPOST
            pty.attr[0] = 0
            pty.attr[3] &= ~(2 | 1)       # no ICANON, no ISIG: raw line reads
            return peers.Actor(w, k, proc, child_gen, 1, 'child')
        w.child_setup = T.default_child_setup(w, factory)
        spawned = []

        def on_spawn(ch):
            spawned.append(ch)
            r.child = ch
            r._wrap_calls(ch)
        w.on_spawn = on_spawn
        cblog = []
        xa_bad = []

        def mk_cb(e):
            ret = e['resp'].get('ret')

            def cb(d):
                cblog.append((e['pat'], d.get('event_count'), d.get('child') is (spawned[0] if spawned else None), len(r.calls) - 1))
                if 'extra_args' in scn and d.get('extra_args') != scn['extra_args']:
                    xa_bad.append(d.get('extra_args'))
                if e['resp'].get('side') == 'ignorecase' and d.get('child') is not None:
                    # a callback re-tunes the child through the state dictionary: later occurrences match case-insensitively
                    d['child'].ignorecase = True
                    ic_on[0] = True
                if ret == 'str':
                    v = e['resp']['v']
                    return v if enc else v.encode('latin-1')
                if ret == 'true':
                    return True
                return None
            return cb
        evs = []
        for e in events:
            if e['pat'] == 'TIMEOUT':
                key = TIMEOUT
            elif e['pat'] == 'EOF':
                key = EOF
            else:
                key = e['pat'] if enc else e['pat'].encode('latin-1')
            rs = e['resp']
            if rs['kind'] == 'str':
                val = rs['v'] if enc else rs['v'].encode('latin-1')
            elif rs['kind'] == 'method':
                h = Handler(cblog)
                h._go = mk_cb(e)
                val = h.method
            else:
                val = mk_cb(e)
            evs.append((key, val))
        dup_keys = len(set(kk for kk, _ in evs)) != len(evs)
        arg = evs if (scn.get('as') == 'list' or dup_keys) else dict(evs)
        arg_before = list(arg) if isinstance(arg, list) else dict(arg)
        prun.spawn = T.SimSpawn
        w.begin_op(0)
        w.note('op', (0, 'run'))
        kw = dict(scn.get('run_kwargs') or {})
        if 'searchwindowsize' in kw and any(e['pat'] not in ('TIMEOUT', 'EOF') for e in events):
            raise HarnessError('text events under a search window are not judged')
        if enc:
            kw['encoding'] = enc
        runlog = None
        if scn.get('logfile'):
            from .sendlog import make_log
            runlog = make_log(scn, [0], 'logfile')
            kw['logfile'] = runlog
        if 'extra_args' in scn:
            kw['extra_args'] = dict(scn['extra_args'])
        entry = pexpect.run
        if scn.get('via') == 'runu':
            if enc != 'utf-8':
                raise HarnessError('runu is run() with encoding utf-8')
            kw.pop('encoding', None)
            entry = pexpect.runu
        res = None
        try:
            res = entry('/bin/simdialogue', timeout=scn.get('timeout', 1), withexitstatus=scn.get('withexitstatus', False),
                              events=arg if events else None, echo=False, **kw)
        except SimHang as e:
            out.append(Violation('C12.hang', 'run() never returned: %s' % e, None, {}))
        except HarnessError:
            raise
        except OSError as e:
            if e.errno == 5 and r.proc is not None and not r.proc.alive():
                # a response was sent to a child that had already exited: the kernel
                # refuses the write; the property says nothing about that
                r.w.probe('response_to_exited_child')
                info = collect_info(r)
                info['probes'] = dict(r.w.probes)
                return [], info
            out.append(Violation('C12.exception', 'run() raised %s: %s' % (type(e).__name__, e), harness._tb_site(e), {}))
        except Exception as e:
            out.append(Violation('C12.exception', 'run() raised %s: %s' % (type(e).__name__, e), harness._tb_site(e), {}))
        if not spawned:
            raise HarnessError('run() did not spawn through the seam')
        child = spawned[0]
        st = child.string_type
        if res is not None:
            status = None
            if scn.get('withexitstatus'):
                if not (isinstance(res, tuple) and len(res) == 2):
                    out.append(Violation('C12.shape', 'withexitstatus result is %r' % (type(res),), None, {}))
                    res = (res, None)
                text, status = res
            else:
                text = res
            delivered = st().join(child.chunks)
            calls = r.calls
            # why did it stop?
            last = calls[-1] if calls else None
            stop = 'unknown'
            if last is not None:
                kind, val = last['outcome']
                if kind == 'exc':
                    stop = type(val).__name__
                else:
                    stop = 'event'
            det = {'stop': stop, 'ncalls': len(calls), 'enc': enc,
                   'outcomes': [(c['outcome'][0], c['outcome'][1] if c['outcome'][0] == 'ret' else type(c['outcome'][1]).__name__) for c in calls][:20]}
            if type(text) is not st:
                out.append(Violation('C12.type', 'run() returned %s' % type(text).__name__, None, det))
            else:
                # expected output: every delivered character once, up to the stop point
                if stop in ('EOF', 'TIMEOUT'):
                    want = delivered
                else:
                    plist = last['plist']
                    idx = last['outcome'][1]
                    if plist[idx] is EOF or plist[idx] is TIMEOUT:
                        want = delivered
                    else:
                        # stopped by a callback at a text match: output ends with that match
                        consumed = len(delivered) - len(last['buffer'])
                        want = delivered[:consumed]
                if text != want:
                    i = 0
                    while i < min(len(text), len(want)) and text[i] == want[i]:
                        i += 1
                    kind = 'duplicated' if len(text) > len(want) else 'lost'
                    out.append(Violation('C12.output', 'run() output differs from the delivered stream (%s, first difference at %d, '
                                         'lengths %d vs %d)' % (kind, i, len(text), len(want)), None,
                                         dict(det, got=text[max(0, i - 20):i + 30], want=want[max(0, i - 20):i + 30])))
            if scn.get('withexitstatus') and not out:
                truth = r.proc.status
                if r.proc.state not in ('reaped',):
                    out.append(Violation('C12.exitstatus', 'run(withexitstatus) returned but the child is %s' % r.proc.state, None, det))
                else:
                    want_code = (truth >> 8) & 0xff if not (truth & 0x7f) else None
                    if status != want_code:
                        out.append(Violation('C12.exitstatus', 'exit status %r, child really exited with %r (status word %r)'
                                             % (status, want_code, truth), None, det))
            # responses: each fired event sent its response exactly once, in order, and nothing else was sent
            if not out:
                exp = b''
                fired_text = 0
                for c in calls:
                    if c['outcome'][0] != 'ret':
                        continue
                    e = events[c['outcome'][1]] if c['outcome'][1] < len(events) else None
                    if e is None:
                        continue
                    if e['pat'] not in ('TIMEOUT', 'EOF'):
                        fired_text += 1
                    rs = e['resp']
                    if rs['kind'] == 'str' or rs.get('ret') == 'str':
                        exp += rs['v'].encode('latin-1')
                sent = bytes(r.pty.in_log) + bytes(r.pty.discard_log)
                if sent != exp:
                    out.append(Violation('C12.response', 'bytes sent to the child differ from the responses of the events that fired, in order',
                                         None, dict(det, sent=sent[:200], expected=exp[:200])))
                # every occurrence of an event pattern in the consumed output fired an event
                if not out and type(text) is st:
                    consumed = text if isinstance(text, str) else text.decode('latin-1')
                    occ = 0
                    for tok in ('Q1?', 'Q2?', 'Q3?'):
                        if first_winner(tok) is not None:
                            occ += consumed.count(tok)
                    if stop == 'EOF' and occ != fired_text and not scn.get('ic_toggle'):
                        out.append(Violation('C12.occurrences', '%d occurrences of event patterns in the output, %d events fired'
                                             % (occ, fired_text), None, det))
                if scn.get('ic_toggle') and ic_on[0] and not out and waiting[0] is not None and stop == 'TIMEOUT':
                    # the dialogue child is still waiting for the answer to a prompt that matches an event pattern since the
                    # callback switched the child to ignorecase (two-event shape: the prediction is exact here)
                    out.append(Violation('C12.occurrences', 'a callback set child.ignorecase; the later prompt %r matches an event pattern '
                                         'in the other case and was never answered' % (waiting[0],), None, det))
                # callbacks: consecutive event counts, child passed in the state dictionary
                counts = [c[1] for c in cblog]
                if any(c is None for c in counts) or any(not c[2] for c in cblog):
                    out.append(Violation('C12.callback', 'callback did not receive event_count/child in the state dictionary', None, det))
                elif any(c[1] != c[3] for c in cblog):
                    out.append(Violation('C12.callback', 'event_count seen by callbacks %r is not the number of earlier events %r'
                                         % (counts, [c[3] for c in cblog]), None, det))
        if events and not out:
            # the caller's table still says what it said: every original entry in its place with its response (entries a
            # tidy implementation may have added at the end change nothing for a second run() with the same table)
            if isinstance(arg, list):
                same = list(arg)[:len(arg_before)] == arg_before
            else:
                same = all(k_ in arg and arg[k_] is v_ for k_, v_ in arg_before.items()) and list(arg)[:len(arg_before)] == list(arg_before)
            if not same:
                out.append(Violation('C12.events_mutated', 'run() changed the entries of the events object it was given: a caller who keeps '
                                     'one table for several run() calls gets other answers (or another priority order) the second time',
                                     None, {'stop': None}))
        if xa_bad and not out:
            out.append(Violation('C12.callback', 'a callback found extra_args=%r in the state dictionary, run() was given %r'
                                 % (xa_bad[0], scn['extra_args']), None, {'stop': None}))
        if runlog is not None and res is not None and not out:
            # the transcript: every write is the next chunk delivered from the child or the next response sent, in order;
            # each write is followed by a flush
            ws = runlog.writes()
            det_ = {'stop': None, 'log': 'logfile', 'nwrites': len(ws)}
            sends = []
            for c in r.calls:
                if c['outcome'][0] != 'ret':
                    continue
                e = events[c['outcome'][1]] if c['outcome'][1] < len(events) else None
                if e is not None and (e['resp']['kind'] == 'str' or e['resp'].get('ret') == 'str'):
                    v_ = e['resp']['v']
                    sends.append(v_ if enc else v_.encode('latin-1'))
            si = 0
            rp = 0
            R_ = st().join(child.chunks)        # (one read_nonblocking may be several logged reads: compare the text)
            bad = None
            for w_ in ws:
                if type(w_) is not st:
                    bad = 'the log received %s in %s mode' % (type(w_).__name__, st.__name__)
                    break
                if not len(w_):
                    continue
                if si < len(sends) and w_ == sends[si]:
                    si += 1
                elif R_[rp:rp + len(w_)] == w_:
                    rp += len(w_)
                else:
                    bad = 'log write %r is neither the text read next from the child nor the next response sent' % (w_[:40],)
                    break
            if bad is None and (rp != len(R_) or si != len(sends)):
                bad = 'the log holds %d of %d characters read and %d of %d responses sent' % (rp, len(R_), si, len(sends))
            if bad is None:
                evs_ = runlog.events
                for i_, ev_ in enumerate(evs_):
                    if ev_[0] == 'w' and (i_ + 1 >= len(evs_) or evs_[i_ + 1][0] != 'f'):
                        bad = 'a write to the log was not followed by a flush'
                        break
            if bad is not None:
                out.append(Violation('C11.run_logfile', 'run(logfile=...): ' + bad, None, det_))
            r.w.probe('run_with_logfile')
        info = collect_info(r)
        info['counters'] = {'calls': len(r.calls), 'answers': len(received), 'callbacks': len(cblog),
                            'timeout_events': len([c for c in r.calls if c['outcome'][0] == 'ret' and c['plist'][c['outcome'][1]] is TIMEOUT])}
        if info['counters']['timeout_events']:
            r.w.probe('timeout_event_mid_stream')
        info['probes'] = dict(r.w.probes)
        return out, info
    try:
        return harness.run_with(sc, body)
    finally:
        prun.spawn = pexpect.spawn
