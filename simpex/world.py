"""World: virtual clock, event heap, baton threads, history.

One World per run.  The code under test (CUT) calls into the simulated kernel
through the shim; every such call passes through `sys_enter`, which

  * is a pre-emption point for baton threads,
  * counts the call for ordinal triggers (peer actions placed "immediately
    before the n-th system call of the driver's k-th operation"),
  * charges a few microseconds of virtual time (table taken from the scenario),
  * fires every event that has become due.

A blocking call runs the event loop inline (`block`) until its wake condition
holds or its deadline passes; nothing here reads a real clock or a PRNG.
"""
import errno
import heapq
import sys
import threading
import hashlib

US = 1000000


class SimHang(Exception):
    """The caller would block forever (nothing can ever wake it) or the run
    exceeded its virtual-time / step cap while it was blocked."""


class SimShutdown(BaseException):
    """Raised inside parked CUT threads when the world is torn down."""


class HarnessError(Exception):
    """The scenario is not executable (not a property violation)."""


class SimInterrupt(KeyboardInterrupt):
    """An exception arriving from OUTSIDE while the code under test waits: Ctrl-C, or an application signal handler that
    raises (fault kind `interrupt`).  It lands only where the process really waits (select / poll / recv / sleep with
    nothing ready): that is where a process spends its time, and the only place where code can promise anything."""


class SimThread(object):
    __slots__ = ('name', 'ev', 'state', 'cond', 'deadline', 'real', 'exc')

    def __init__(self, name):
        self.name = name
        self.ev = threading.Event()
        self.state = 'runnable'   # runnable | blocked | done
        self.cond = None
        self.deadline = None
        self.real = None
        self.exc = None


class World(object):
    def __init__(self, scenario):
        self.scn = scenario
        self.now = int(scenario.get('t0_us', 1000000 * US))
        self.t0 = self.now
        self.seq = 0
        self.heap = []
        costs = scenario.get('costs') or [3]
        self.costs = [max(1, int(c)) for c in costs]
        self.cost_i = 0
        self.trace = []
        self.record_sites = bool(scenario.get('record_sites', True))
        self.vt_cap = self.now + int(scenario.get('vt_cap_s', 200000)) * US
        self.step_cap = int(scenario.get('step_cap', 400000))
        self.steps = 0
        # ordinal triggers
        self.op_index = -1
        self.op_sys = 0
        self.ordinal = {}          # (k, n) -> [callable]
        self.ordinal_fired = 0
        # threads
        self.main = SimThread('main')
        self.current = self.main
        self.threads = [self.main]
        self.sched = scenario.get('sched') or [0]
        self.sched_i = 0
        self.shutdown = False
        self.preempts = 0
        # statistics
        self.faults = {}
        self.probes = {}
        self.sigs = set()          # placement signatures
        self.last_site = None
        self.kernel = None         # set by Kernel
        self.child_setup = None    # callable(args, kwargs) -> (pid, master_fd)
        self.popen_setup = None    # callable(cmd) -> (proc, stdin_w, stdout_r)
        self.on_spawn = None       # callable(child) for objects created inside the CUT (run())
        self.short_plan = scenario.get('short_writes') or []
        self.ptyprocs = []
        self.children = []         # (proc, pty, slave) per spawned pty child
        self.short_i = 0
        self.on_read = None        # optional callable(fd, data) after every CUT read
        self.short_fd = None       # short writes apply to this descriptor only
        if max(self.costs) > 20:
            self.faults['slow_syscalls'] = 1      # a slow or descheduled machine: 0.05..5 ms per system call
        self.cost_total = 0        # virtual time charged for the system calls themselves (not for waiting inside them)
        # EINTR plan: [[n, delay_us], ...]: the n-th select/poll of the code under test that really has to wait is
        # interrupted by a signal `delay_us` after it started (pre-PEP-475 semantics: InterruptedError reaches the caller)
        self.eintr_plan = {int(n): int(d) for n, d in (scenario.get('eintr') or [])}
        self.wait_calls = 0
        # interrupt plan: [[n, delay_us], ...]: the n-th wait of the main thread (select / poll / recv / sleep) is
        # abandoned `delay_us` after it started by an exception from outside (SimInterrupt)
        self.intr_plan = {int(n): int(d) for n, d in (scenario.get('intr') or [])}
        self.intr_calls = 0
        self.intr_armed = False    # interrupts land only inside operations of the driver on the object under test

    # ---------------------------------------------------------------- stats
    def fault(self, kind, n=1):
        self.faults[kind] = self.faults.get(kind, 0) + n

    def probe(self, name, n=1):
        self.probes[name] = self.probes.get(name, 0) + n

    def short_write(self, n):
        """Bytes after which a CUT write returns early (0 = complete write).
        Only scenarios that opt in (interact's write-all loop) carry a plan."""
        if not self.short_plan or n <= 1:
            return 0
        s = self.short_plan[self.short_i % len(self.short_plan)]
        self.short_i += 1
        if s and s < n:
            self.fault('short_write')
            return int(s)
        return 0

    def wait_interruptible(self, cond, timeout_us, what):
        """block() for select/poll of the code under test; raises InterruptedError(EINTR) when the scenario's
        EINTR plan places a signal inside this wait and nothing became ready before it."""
        if self.intr_plan and self.intr_armed and self.current is self.main:
            if self._interrupt_here(cond, timeout_us, what):
                return True
        self.wait_calls += 1
        d = self.eintr_plan.get(self.wait_calls)
        if d is None or (timeout_us is not None and d >= timeout_us):
            return self.block(cond, timeout_us, what)
        if self.block(cond, d, what):
            return True
        self.fault('eintr')
        self.log('eintr', (what, d), None)
        raise InterruptedError(errno.EINTR, 'Interrupted system call')

    def _interrupt_here(self, cond, timeout_us, what):
        """True: the wait ended normally before the interrupt was due (nothing more to do).  False: no interrupt
        is planned for this wait.  Raises SimInterrupt otherwise."""
        self.intr_calls += 1
        d = self.intr_plan.get(self.intr_calls)
        if d is None or (timeout_us is not None and d >= timeout_us):
            return False
        if self.block(cond, d, what):
            return True
        self.fault('interrupt')
        self.log('interrupt', (what, d), None)
        raise SimInterrupt('interrupted from outside in %s' % (what,))

    def wait_plain(self, cond, timeout_us, what):
        """block() for waits that take no EINTR (sleep, recv) but can be abandoned by an interrupt from outside."""
        if self.intr_plan and self.intr_armed and self.current is self.main:
            if self._interrupt_here(cond, timeout_us, what):
                return True
        return self.block(cond, timeout_us, what)

    # ----------------------------------------------------------------- time
    def time(self):
        return self.now / float(US)

    def at(self, t_us, fn):
        self.seq += 1
        heapq.heappush(self.heap, (int(t_us), self.seq, fn))

    def after(self, dt_us, fn):
        self.at(self.now + max(0, int(dt_us)), fn)

    def _fire_due(self):
        heap = self.heap
        while heap and heap[0][0] <= self.now:
            t, _, fn = heapq.heappop(heap)
            self.steps += 1
            fn()

    # ---------------------------------------------------------- CUT calls
    def callsite(self):
        """Nearest pexpect/ptyprocess frame: (file, function, line)."""
        f = sys._getframe(2)
        depth = 0
        while f is not None and depth < 12:
            fn = f.f_code.co_filename
            if ('/pexpect/' in fn or '/ptyprocess/' in fn) and '/simpex/' not in fn:
                return (fn.rsplit('/', 1)[-1], f.f_code.co_name, f.f_lineno)
            f = f.f_back
            depth += 1
        return None

    def sys_enter(self, name):
        """Called at the start of every intercepted CUT call."""
        if self.shutdown:
            raise SimShutdown()
        cur = self.current
        if len(self.threads) > 1:
            self._yield_point()
        if cur is self.main:
            self.op_sys += 1
            key = (self.op_index, self.op_sys)
            lst = self.ordinal.pop(key, None)
            if lst:
                site = self.callsite() if self.record_sites else None
                for fn in lst:
                    self.ordinal_fired += 1
                    self.sigs.add((fn.__name__ if hasattr(fn, '__name__') else 'act',
                                   self.last_site, name, site))
                    fn()
        c = self.costs[self.cost_i]
        self.cost_total += c
        self.cost_i += 1
        if self.cost_i >= len(self.costs):
            self.cost_i = 0
        self.now += c
        self.steps += 1
        if self.heap and self.heap[0][0] <= self.now:
            self._fire_due()
        if self.steps > self.step_cap:
            raise SimHang('step cap exceeded in %s' % name)

    def log(self, name, args, res):
        """Record one finished CUT call in the history."""
        site = None
        if self.record_sites:
            site = self.callsite()
            self.last_site = (name, site)
        self.seq += 1
        self.trace.append((self.seq, self.now, self.current.name, name, args, res, site))

    def note(self, kind, what):
        """Record a non-CUT event (peer action, fault, driver op)."""
        self.seq += 1
        self.trace.append((self.seq, self.now, '-', kind, what, None, None))

    def begin_op(self, k):
        self.op_index = k
        self.op_sys = 0
        if self.ordinal:
            # triggers whose operation is over without reaching call n fire now
            stale = sorted(key for key in self.ordinal if key[0] < k)
            for key in stale:
                for fn in self.ordinal.pop(key):
                    fn()

    def on_ordinal(self, k, n, fn):
        k, n = int(k), int(n)
        if k < self.op_index or (k == self.op_index and n <= self.op_sys):
            self.after(0, fn)      # that call is already in the past
            return
        self.ordinal.setdefault((k, n), []).append(fn)

    # ------------------------------------------------------------ blocking
    def block(self, cond, timeout_us=None, what='block'):
        """Park the calling CUT thread until cond() or the timeout.
        Returns True if cond holds, False on timeout."""
        me = self.current
        deadline = None if timeout_us is None else self.now + max(0, int(timeout_us))
        me.cond = cond
        me.deadline = deadline
        try:
            while True:
                if self.shutdown:
                    raise SimShutdown()
                if cond():
                    return True
                if deadline is not None and self.now >= deadline:
                    return False
                if len(self.threads) > 1:
                    other = self._pick_other(me)
                    if other is not None:
                        me.state = 'blocked'
                        self._switch(me, other)
                        me.state = 'runnable'
                        continue
                # nobody else can run: advance the world
                nxt = self.heap[0][0] if self.heap else None
                dl = self._min_deadline()
                if nxt is None and dl is None:
                    if self.ordinal:
                        # a peer action was placed before a later call of this
                        # operation, which the blocked caller will never make:
                        # it happens now, while the caller is blocked
                        key = min(self.ordinal)
                        for fn in self.ordinal.pop(key):
                            self.ordinal_fired += 1
                            fn()
                        continue
                    raise SimHang('%s: nothing can wake the caller' % what)
                if nxt is None or (dl is not None and dl < nxt):
                    self.now = max(self.now, dl)
                    if self.now > self.vt_cap:
                        raise SimHang('%s: virtual time cap' % what)
                    continue
                if nxt > self.vt_cap:
                    raise SimHang('%s: virtual time cap' % what)
                t, _, fn = heapq.heappop(self.heap)
                if t > self.now:
                    self.now = t
                self.steps += 1
                if self.steps > self.step_cap:
                    raise SimHang('%s: step cap' % what)
                fn()
        finally:
            me.cond = None
            me.deadline = None

    def sleep(self, dt_us):
        self.block(lambda: False, dt_us, 'sleep')

    def sleep_interruptible(self, dt_us):
        self.wait_plain(lambda: False, dt_us, 'sleep')

    def _min_deadline(self):
        dl = None
        for t in self.threads:
            if t.state != 'done' and t.deadline is not None and (t is self.current or t.state == 'blocked'):
                if dl is None or t.deadline < dl:
                    dl = t.deadline
        return dl

    # ------------------------------------------------------------- threads
    def _is_runnable(self, t):
        if t.state == 'done':
            return False
        if t.state == 'runnable':
            return True
        if t.cond is not None and t.cond():
            return True
        if t.deadline is not None and self.now >= t.deadline:
            return True
        return False

    def _choice(self, n):
        c = self.sched[self.sched_i % len(self.sched)]
        self.sched_i += 1
        return int(c) % n

    def _pick_other(self, me):
        cands = [t for t in self.threads if t is not me and self._is_runnable(t)]
        if not cands:
            return None
        return cands[self._choice(len(cands))]

    def _switch(self, me, other):
        self.current = other
        if me is not None:
            me.ev.clear()
        other.ev.set()
        if me is not None:
            me.ev.wait()
            if self.shutdown:
                raise SimShutdown()
            self.current = me

    def _yield_point(self):
        me = self.current
        cands = [t for t in self.threads if self._is_runnable(t)]
        if len(cands) <= 1:
            return
        pick = cands[self._choice(len(cands))]
        if pick is not me:
            self.preempts += 1
            self._switch(me, pick)

    def spawn_thread(self, name, target):
        st = SimThread(name)
        world = self

        def runner():
            st.ev.wait()
            try:
                if world.shutdown:
                    return
                world.current = st
                target()
            except SimShutdown:
                return
            except BaseException as e:   # recorded; surfaced by the driver
                st.exc = e
            finally:
                st.state = 'done'
                if not world.shutdown:
                    # hand the baton on: prefer a runnable thread, else any
                    # live one (it will drive the world from its block loop)
                    nxt = None
                    for t in world.threads:
                        if t is not st and world._is_runnable(t):
                            nxt = t
                            break
                    if nxt is None:
                        for t in world.threads:
                            if t is not st and t.state != 'done':
                                nxt = t
                                break
                    if nxt is not None:
                        world.current = nxt
                        nxt.ev.set()
        th = threading.Thread(target=runner, name=name)
        th.daemon = True
        st.real = th
        self.threads.append(st)
        th.start()
        return st

    def teardown(self):
        self.shutdown = True
        for t in self.threads:
            if t is not self.main:
                t.ev.set()
        for t in self.threads:
            if t is not self.main and t.real is not None:
                t.real.join(5.0)

    # ---------------------------------------------------------------- trace
    def digest(self):
        h = hashlib.blake2b(digest_size=12)
        for e in self.trace:
            h.update(repr(e).encode('utf-8', 'backslashreplace'))
        return h.hexdigest()

    def elapsed_s(self):
        return (self.now - self.t0) / float(US)
