"""C16 family: REPLWrapper against a scripted line-oriented REPL whose command
outputs are known by construction."""
import asyncio
import signal

import pexpect
import pexpect.replwrap as replwrap

from . import aioloop
from . import harness
from . import peers
from . import shim
from . import transports as T
from .engine import Violation, gen_costs, collect_info
from .harness import EOF, TIMEOUT
from .kernel import ECHO
from .world import SimHang, HarnessError

ORIG_PROMPT = u'>>> '
NEW_PROMPT = replwrap.PEXPECT_PROMPT
CONT_PROMPT = replwrap.PEXPECT_CONTINUATION_PROMPT


def payload(n, seed):
    # deterministic text without prompt characters; may contain CR LF pairs
    out = []
    x = seed * 7919 + 13
    al = u'abcdefghij 0123456789'
    while len(out) < n:
        x = (x * 1103515245 + 12345) & 0x7fffffff
        if x % 37 == 0:
            out.append(u'\n')
        else:
            out.append(al[x % len(al)])
    return u''.join(out)[:n]


def expected_output(cmd):
    """Output of one (complete) command as the terminal delivers it (ONLCR)."""
    out = u''
    lines = cmd.split(u'\n')
    block = None
    text = None
    for ln in lines:
        w = ln.split()
        if text is not None:
            if ln == u'EOT':
                out += u''.join(t + u'\n' for t in text)
                text = None
            else:
                text.append(ln)
            continue
        if block is None and w and w[0] == u'text':
            text = []
            continue
        if block is not None:
            if w and w[0] == u'end':
                for b in block:
                    out += exec_line(b)
                block = None
            else:
                block.append(ln)
            continue
        if w and w[0] == u'begin':
            block = []
            continue
        out += exec_line(ln)
    return out.replace(u'\n', u'\r\n')


def exec_line(ln):
    w = ln.split()
    if not w:
        return u''
    if w[0] in (u'out', u'slow'):
        return payload(int(w[1]), int(w[2])) + u'\n'
    if w[0] == u'outn':
        return payload(int(w[1]), int(w[2]))
    if w[0] == u'nop':
        return u''
    if w[0] == u'same':
        return ln + u'\n'          # prints exactly its own text (like a literal typed at an interpreter prompt)
    return u'error: %s\n' % ln


def gen_cmd(rng):
    r = rng.random()
    n = rng.choice([0, 1, 5, 30, 200]) if rng.random() < 0.9 else rng.randint(2000, 200000)
    s = rng.randrange(1000)
    if r < 0.35:
        return {'cmd': u'out %d %d' % (n, s)}
    if r < 0.5:
        return {'cmd': u'outn %d %d' % (n, s)}
    if r < 0.55:
        return {'cmd': u'nop'}
    if r < 0.58:
        return {'cmd': u'same %d' % rng.randrange(1000)}
    if r < 0.6:
        # one line of input that contains a character str.splitlines() also treats as a line boundary (LINE SEPARATOR,
        # PARAGRAPH SEPARATOR, NEL; FF / VT when the terminal does not echo): a quoted string, a message to print.
        # For the REPL -- and for the terminal -- it is ONE line.
        return {'cmd': u'same %d%s%d' % (rng.randrange(100), rng.choice([u'\u2028', u'\u2029', u'\x85', u'\x0c', u'\x0b']),
                                         rng.randrange(100)), 'odd_sep': True}
    if r < 0.7:
        return {'cmd': u'slow %d %d' % (min(n, 3000), s)}
    if r < 0.85:
        inner = [u'out %d %d' % (rng.choice([0, 3, 40]), rng.randrange(1000)) for _ in range(rng.randint(0, 3))]
        return {'cmd': u'\n'.join([u'begin'] + inner + [u'end'])}
    if r < 0.93:
        inner = [u'out %d %d' % (rng.choice([0, 3, 40]), rng.randrange(1000)) for _ in range(rng.randint(0, 2))]
        lead = []
        if rng.random() < 0.5:
            # complete lines that print something come first; only the tail is incomplete.  Their output was collected
            # before the ValueError and must not turn up in the next command's result
            lead = [u'out %d %d' % (rng.choice([1, 3, 40]), rng.randrange(1000)) for _ in range(rng.randint(1, 2))]
        return {'cmd': u'\n'.join(lead + [u'begin'] + inner), 'incomplete': True}
    if r < 0.97:
        # verbatim block (like a here-document / a quoted multi-line string): blank and indented lines matter
        body = [rng.choice([u'', u'', u'  indented', u'line %d' % rng.randrange(100), u' ']) for _ in range(rng.randint(1, 4))]
        return {'cmd': u'\n'.join([u'text'] + body + [u'EOT'])}
    return {'cmd': u'out %d %d\n' % (min(n, 50), s)}


def generate(rng):
    scn = {'family': 'repl', 'transport': 'pty'}
    scn['costs'] = gen_costs(rng)
    scn['prompt_change'] = rng.random() < 0.6
    scn['async'] = rng.random() < 0.35
    scn['echo'] = rng.random() < 0.25
    scn['use_poll'] = rng.random() < 0.3
    import os
    deep = os.environ.get('SIMPEX_TIER') == 'thorough' and rng.random() < 0.4
    scn['cmds'] = [gen_cmd(rng) for _ in range(rng.randint(6, 20) if deep else rng.randint(1, 7))]
    scn['maxread'] = rng.choice([1, 7, 2000, 2000, 2000])
    if rng.random() < 0.35:
        scn['tear'] = [rng.choice([0, 1, 3, 16, 17]) for _ in range(rng.randint(1, 5))]
    scn['piece'] = rng.choice([1, 5, 100, 100000])       # the REPL writes its output in pieces of this size
    scn['piece_dt'] = rng.choice([0, 0, 3, 500, 20000])
    scn['banner'] = rng.choice([u'', u'Welcome to simrepl 1.0\n', u'type "help" >>>x for help\n'])
    scn['timeout'] = rng.choice([5, 30])
    # keep every command's output deliverable well inside the timeout: bound the size by the read/write granularity
    lim = 200000
    if scn['maxread'] < 100 or any(0 < t < 100 for t in scn.get('tear', [])):
        lim = 2500
    if scn['piece'] < 100:
        lim = min(lim, 1500 if scn['piece_dt'] <= 500 else 150)
    elif scn['piece'] == 100 and scn['piece_dt'] >= 500:
        lim = min(lim, 20000 if scn['piece_dt'] == 500 else 4000)
    for c in scn['cmds']:
        parts = c['cmd'].split(u'\n')
        for i, ln in enumerate(parts):
            wd = ln.split()
            if wd and wd[0] in (u'out', u'outn', u'slow') and int(wd[1]) > lim:
                parts[i] = u'%s %d %s' % (wd[0], lim, wd[2])
        c['cmd'] = u'\n'.join(parts)
        if len(parts) > 1 and rng.random() < 0.3:
            # the caller's text may separate lines by CR LF or by a bare CR (pasted text): run_command splits at every
            # line boundary str.splitlines() knows, the terminal would turn an embedded CR into a line end anyway
            c['sep'] = rng.choice([u'\r\n', u'\r', u'\r'])
    scn['step_cap'] = 1500000
    scn['extra_init'] = rng.random() < 0.2
    if scn['echo']:
        # (a terminal that echoes shows control characters as ^L etc.: keep those to the non-echoing sessions)
        for c in scn['cmds']:
            if c.get('odd_sep'):
                for ch_ in (u'\x0c', u'\x0b'):
                    c['cmd'] = c['cmd'].replace(ch_, u'\u2028')
    return scn


def run(scn):
    sc = dict(scn)

    def body(r):
        w, k = r.w, r.k
        st = {'ps1': ORIG_PROMPT, 'ps2': CONT_PROMPT, 'sigints': 0}
        lines_seen = []

        def repl_gen(a):
            slave = a.proc.handles[0]

            def emit(text):
                data = text.encode('utf-8')
                ps = max(1, int(scn.get('piece', 100000)))
                i = 0
                while i < len(data):
                    if scn.get('piece_dt') and i:
                        yield ('sleep', scn['piece_dt'])
                    yield ('write', slave, data[i:i + ps])
                    i += ps
            try:
                for x in emit(scn.get('banner', u'') + st['ps1']):
                    yield x
                buf = b''
                block = None
                textblock = None
                while True:
                    while b'\n' not in buf:
                        d = yield ('read', slave, 4096, 'intr')
                        if d is None:
                            # SIGINT: cancel whatever is being entered
                            block = None
                            textblock = None
                            buf = b''
                            for x in emit(u'\nKeyboardInterrupt\n' + st['ps1']):
                                yield x
                            continue
                        if not d:
                            yield ('exit', 0)
                            return
                        buf += d
                    line, _, buf = buf.partition(b'\n')
                    ln = line.decode('utf-8')
                    lines_seen.append(ln)
                    wds = ln.split()
                    if textblock is not None:
                        if ln == u'EOT':
                            outt = u''.join(t + u'\n' for t in textblock)
                            textblock = None
                            for x in emit(outt + st['ps1']):
                                yield x
                        else:
                            textblock.append(ln)
                            for x in emit(st['ps2']):
                                yield x
                        continue
                    if block is None and wds and wds[0] == u'text':
                        textblock = []
                        for x in emit(st['ps2']):
                            yield x
                        continue
                    if block is not None:
                        if wds and wds[0] == u'end':
                            outt = u''.join(exec_line(b) for b in block)
                            block = None
                            for x in emit(outt + st['ps1']):
                                yield x
                        else:
                            block.append(ln)
                            for x in emit(st['ps2']):
                                yield x
                        continue
                    if wds and wds[0] == u'begin':
                        block = []
                        for x in emit(st['ps2']):
                            yield x
                        continue
                    if ln.startswith(u'setps|'):
                        parts = ln.split(u'|')
                        st['ps1'], st['ps2'] = parts[1], parts[2]
                        for x in emit(st['ps1']):
                            yield x
                        continue
                    if wds and wds[0] == u'slow':
                        text = exec_line(ln)
                        step = max(1, len(text) // 7)
                        for i in range(0, len(text), step):
                            yield ('sleep', 300000)
                            yield ('write', slave, text[i:i + step].encode('utf-8'))
                        for x in emit(st['ps1']):
                            yield x
                        continue
                    for x in emit(exec_line(ln) + st['ps1']):
                        yield x
            except OSError:
                return

        def factory(proc, slave, pty):
            r.proc, r.pty = proc, pty
            actor = peers.Actor(w, k, proc, repl_gen, 1, 'repl')

            def on_int(sig):
                st['sigints'] += 1
                actor.interrupt()
            proc.disp[signal.SIGINT] = on_int
            return actor
        w.child_setup = T.default_child_setup(w, factory, pty_kw=dict(out_cap=65536))
        kw = dict(timeout=scn.get('timeout', 30), maxread=scn.get('maxread', 2000), encoding='utf-8',
                  echo=scn.get('echo', False), use_poll=scn.get('use_poll', False))
        child = T.SimSpawn('/bin/simrepl', **kw)
        r.child = child
        out = []

        def V(clause, msg, **d):
            d.update(prompt_change=scn.get('prompt_change'), is_async=scn.get('async'))
            out.append(Violation(clause, msg, d.pop('site', None), d))
        results = []
        w.begin_op(0)
        w.note('op', (0, 'replwrap'))
        try:
            if scn.get('prompt_change'):
                repl = replwrap.REPLWrapper(child, ORIG_PROMPT, u'setps|{0}|{1}',
                                            extra_init_cmd=(u'nop' if scn.get('extra_init') else None))
            else:
                repl = replwrap.REPLWrapper(child, ORIG_PROMPT, None, continuation_prompt=CONT_PROMPT,
                                            extra_init_cmd=(u'nop' if scn.get('extra_init') else None))
        except SimHang as e:
            V('C16.init_hang', 'REPLWrapper() never returned: %s' % e)
            return out, collect_info(r)
        except HarnessError:
            raise
        except Exception as e:
            V('C16.init_exception', 'REPLWrapper() raised %s: %s' % (type(e).__name__, e), site=harness._tb_site(e))
            return out, collect_info(r)

        def one(kx, c, ret):
            kind, val = ret
            cmd = c['cmd']
            det = {'k': kx, 'cmd': cmd[:60], 'kind': kind}
            if c.get('incomplete'):
                if kind != 'exc' or not isinstance(val, ValueError):
                    V('C16.incomplete', 'incomplete input gave %s %r instead of ValueError' % (kind, str(val)[:80]), **det)
                return
            if kind == 'exc':
                V('C16.exception', 'run_command raised %s: %s' % (type(val).__name__, str(val)[:200]), site=harness._tb_site(val), **det)
                return
            want = expected_output(cmd)
            if val != want:
                i = 0
                while i < min(len(val), len(want)) and val[i] == want[i]:
                    i += 1
                V('C16.output', 'run_command returned %d characters, the command printed %d (first difference at %d)'
                  % (len(val), len(want), i), got=val[max(0, i - 20):i + 40], want=want[max(0, i - 20):i + 40], **det)

        sig_before = 0
        if scn.get('async'):
            aioloop.install()
            loop = aioloop.SimLoop()
            loop.set_exception_handler(lambda lp, ctx: None)

            async def driver():
                for kx, c in enumerate(scn['cmds']):
                    w.begin_op(kx + 1)
                    w.note('op', (kx + 1, 'arun_command'))
                    try:
                        v = await repl.run_command(c['cmd'].replace(u'\n', c['sep']) if c.get('sep') else c['cmd'], async_=True)
                        results.append(('ret', v))
                    except (SimHang, HarnessError):
                        raise
                    except Exception as e:
                        results.append(('exc', e))
                    one(kx, c, results[-1])
                    if out:
                        return
            try:
                loop.run_until_complete(driver())
            except SimHang as e:
                V('C16.hang', 'awaited run_command never returned: %s' % e)
            finally:
                loop.detach_all()
                try:
                    loop.close()
                except Exception:
                    pass
        else:
            for kx, c in enumerate(scn['cmds']):
                w.begin_op(kx + 1)
                w.note('op', (kx + 1, 'run_command'))
                try:
                    v = repl.run_command(c['cmd'].replace(u'\n', c['sep']) if c.get('sep') else c['cmd'])
                    results.append(('ret', v))
                except SimHang as e:
                    V('C16.hang', 'run_command never returned: %s' % e, k=kx, cmd=c['cmd'][:60])
                    break
                except HarnessError:
                    raise
                except Exception as e:
                    results.append(('exc', e))
                one(kx, c, results[-1])
                if out:
                    break
        n_inc = len([c for c in scn['cmds'][:len(results)] if c.get('incomplete')])
        if not out and st['sigints'] != n_inc:
            V('C16.sigint', 'the REPL received %d SIGINT for %d incomplete inputs' % (st['sigints'], n_inc))
        info = collect_info(r)
        info['counters'] = {'cmds': len(results), 'incomplete': n_inc, 'async': 1 if scn.get('async') else 0,
                            'out_chars': sum(len(v) for kd, v in results if kd == 'ret')}
        if any(kd == 'ret' and len(v) > 65536 for kd, v in results):
            r.w.probe('output_larger_than_pty_buffer')
        if n_inc and len(results) > scn['cmds'].index([c for c in scn['cmds'] if c.get('incomplete')][0]) + 1:
            r.w.probe('command_after_incomplete')
        info['probes'] = dict(r.w.probes)
        return out, info
    return harness.run_with(sc, body)
