#!/bin/sh
# eval_seed.sh <seed-dir> <n> <check-ids> [full]
# Confirms one seeded change in a scratch worktree of /repo HEAD: the demonstration fails with it and passes
# without it, the repository's tests still pass with it, and which simchecks catch it.  Writes <outdir>/<name>.json.
set -u
SD="$1"; N="$2"; IDS="$3"; FULL="${4:-full}"
HERE="$(cd "$(dirname "$0")/.." && pwd)"
NAME="$(basename "$SD")_$N"
OUT=/tmp/seedeval; mkdir -p "$OUT"
WT="$(mktemp -d /tmp/evalseed_XXXXXX)"; rmdir "$WT"
git -C /repo worktree add -q --detach "$WT" "${SEED_BASE:-HEAD}" || exit 2
cp -r "$SD/_seed" "$WT/_seed"
cd "$WT"; export PYTHONPATH="$WT"
# without the change
timeout 600 /venv/bin/python _seed/demo$N.py > "$OUT/$NAME.demo_clean.txt" 2>&1; D0=$?
if ! git apply "$SD/_seed/patch$N.diff"; then echo "{\"name\":\"$NAME\",\"error\":\"patch does not apply\"}" > "$OUT/$NAME.json"; cd /; git -C /repo worktree remove --force "$WT"; exit 2; fi
/venv/bin/python -c "import pexpect" || { echo "{\"name\":\"$NAME\",\"error\":\"import fails\"}" > "$OUT/$NAME.json"; }
timeout 600 /venv/bin/python _seed/demo$N.py > "$OUT/$NAME.demo_patched.txt" 2>&1; D1=$?
RES=""
for id in $(echo "$IDS" | tr ',' ' '); do
  o=$(VERIF_REPO="$WT" VERIF_EVIDENCE_DIR="$WT/_ev" VERIF_REPLAY_DIR="$WT/_rp" "$HERE/simcheck" "$id" --tier quick 2>&1); e=$?
  cl=$(echo "$o" | grep -E "^  clause=" | head -3 | sed 's/"/\x27/g; s/\\/\//g' | cut -c1-200 | tr '\n' '|' | tr -d '\000-\037')
  RES="$RES{\"check\":\"$id\",\"exit\":$e,\"clauses\":\"$cl\"},"
done
if [ "$FULL" = "full" ]; then
  unshare -rn sh -c "ip link set lo up; cd $WT && timeout 1500 /venv/bin/python -m pytest tests -q -p no:cacheprovider --timeout=900 -x --deselect tests/test_replwrap.py::REPLWrapTestCase::test_existing_spawn --deselect tests/test_replwrap.py::REPLWrapTestCase::test_pager_as_cat --deselect tests/test_replwrap.py::REPLWrapTestCase::test_zsh" > "$OUT/$NAME.tests.txt" 2>&1; T=$?
  TS=$(tail -1 "$OUT/$NAME.tests.txt" | sed 's/"/\x27/g')
else
  T=-1; TS="not run"
fi
echo "{\"name\":\"$NAME\",\"demo_clean_exit\":$D0,\"demo_patched_exit\":$D1,\"tests_exit\":$T,\"tests\":\"$TS\",\"checks\":[${RES%,}]}" > "$OUT/$NAME.json"
cat "$OUT/$NAME.json"
cd /; git -C /repo worktree remove --force "$WT"
