#!/bin/sh
# try_patch.sh <patch.diff> <check-id>[,<check-id>...] [extra simcheck args]
# Applies a seeded change to a scratch worktree of /repo's HEAD (never to /repo itself),
# runs the given quick checks against it and removes the worktree again.
set -u
PATCH="$(readlink -f "$1")"; IDS="$2"; shift 2
HERE="$(cd "$(dirname "$0")/.." && pwd)"
WT="$(mktemp -d /tmp/trypatch_XXXXXX)"
rmdir "$WT"
git -C /repo worktree add -q --detach "$WT" "${SEED_BASE:-HEAD}" || exit 2
if ! git -C "$WT" apply "$PATCH"; then echo "PATCH DOES NOT APPLY"; git -C /repo worktree remove --force "$WT"; exit 2; fi
rc=0
for id in $(echo "$IDS" | tr ',' ' '); do
  out=$(VERIF_REPO="$WT" VERIF_EVIDENCE_DIR="$WT/_ev" VERIF_REPLAY_DIR="$WT/_rp" "$HERE/simcheck" "$id" --tier quick "$@" 2>&1); e=$?
  echo "== $id exit $e"
  echo "$out" | grep -E "^(VIOLATION|  clause|HARNESS)" | cut -c1-260 | head -8
  [ $e -eq 1 ] && rc=1
done
git -C /repo worktree remove --force "$WT"
exit $rc
