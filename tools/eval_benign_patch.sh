#!/bin/sh
# eval_benign_patch.sh <patch.diff> <name>: a stored behaviour-preserving patch against a scratch worktree of /repo HEAD,
# quick tier of every check.  Result: /tmp/benigneval/<name>.txt
set -u
P="$(readlink -f "$1")"; NAME="$2"
HERE="$(cd "$(dirname "$0")/.." && pwd)"
OUT=/tmp/benigneval; mkdir -p "$OUT"
WT="$(mktemp -d /tmp/evalbenign_XXXXXX)"; rmdir "$WT"
git -C /repo worktree add -q --detach "$WT" HEAD || exit 2
if ! git -C "$WT" apply "$P"; then echo "$NAME: patch does not apply" > "$OUT/$NAME.txt"; git -C /repo worktree remove --force "$WT"; exit 2; fi
: > "$OUT/$NAME.txt"
for id in $("$HERE/simcheck" list | cut -d' ' -f1); do
  o=$(VERIF_REPO="$WT" VERIF_EVIDENCE_DIR="$WT/_ev" VERIF_REPLAY_DIR="$WT/_rp" "$HERE/simcheck" "$id" --tier quick 2>&1); e=$?
  echo "$NAME $id exit $e" >> "$OUT/$NAME.txt"
  if [ $e -ne 0 ]; then echo "$o" | grep -E "^(VIOLATION|  clause=|HARNESS)" | cut -c1-300 | head -6 >> "$OUT/$NAME.txt"; fi
done
grep -c "exit 0" "$OUT/$NAME.txt" | sed "s/^/$NAME checks passing: /"
grep -v "exit 0" "$OUT/$NAME.txt"
git -C /repo worktree remove --force "$WT"
