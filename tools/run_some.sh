#!/bin/sh
# run_some.sh <tier> <ids...>: the given checks in the given tier, evidence and replays kept out of /verif
cd "$(dirname "$0")/.."
TIER="$1"; shift
D=$(mktemp -d /tmp/runsome_XXXXXX)
for c in "$@"; do
  out=$(VERIF_EVIDENCE_DIR="$D/ev" VERIF_REPLAY_DIR="$D/rp" ./simcheck "$c" --tier "$TIER" 2>&1); e=$?
  echo "$out" | grep -E "^(VIOLATION|HARNESS|  clause)" | cut -c1-240
  echo "$out" | tail -1 | cut -c1-200
  echo "== $c $TIER exit $e"
done
