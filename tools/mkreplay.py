#!/venv/bin/python
"""mkreplay.py <property> <scenario.json|-> <out.json>: run a hand-written scenario
(against VERIF_REPO, default /repo) and store it as a replay file with the
violation it produces."""
import json
import os
import sys
VERIF = os.path.dirname(os.path.dirname(os.path.abspath(__file__)))
sys.path.insert(0, VERIF)
sys.path.insert(0, os.environ.get('VERIF_REPO', '/repo'))
from checks import registry      # noqa
from simpex import runner        # noqa

pid, src, out = sys.argv[1:4]
out = os.path.abspath(out)
scn = json.load(sys.stdin if src == '-' else open(src))
if 'scenario' in scn:
    scn = scn['scenario']
spec = registry.get(pid)
viols, info, herr = runner.run_one(spec, scn)
if herr:
    print(herr)
    sys.exit(2)
v = viols[0] if viols else {'clause': None, 'tag': None, 'msg': 'no violation on this tree', 'site': None, 'detail': {}}
with open(out, 'w') as f:
    json.dump({'property': pid, 'clause': v['clause'], 'tag': v['tag'], 'msg': v['msg'], 'site': v['site'],
               'detail': v['detail'], 'trace_digest': info.get('digest'), 'note': 'hand-written / imported',
               'scenario': scn}, f, indent=1, sort_keys=True)
print(pid, v['clause'], v['tag'], v['msg'])
