#!/venv/bin/python
"""seed_table.py: rewrites the table of seeded changes in DESIGN.md (between the markers) from seeded/*/meta.json."""
import glob, json, os, re
VERIF = os.path.dirname(os.path.dirname(os.path.abspath(__file__)))
rows = []
for d in sorted(glob.glob(os.path.join(VERIF, 'seeded', '*'))):
    m = json.load(open(os.path.join(d, 'meta.json')))
    note = m.get('history', m.get('note', ''))
    esc = lambda s: str(s).replace('|', '/').replace('\n', ' ')
    rows.append('| %s | %s | %s | %s | %s | %s |' % (os.path.basename(d), m['property'], esc(m['what_it_changes']), esc(m['needs_to_manifest']),
                                                   ', '.join(m['caught_by']) or '**none**', esc(note)))
head = '| seeded change | property | change | needs | caught by (quick tier) | note |\n|---|---|---|---|---|---|\n'
p = os.path.join(VERIF, 'DESIGN.md')
s = open(p).read()
new = head + '\n'.join(rows) + '\n'
s2 = re.sub(r'\| seeded change \| property \|.*?\n(?=\n)', lambda _: new, s, count=1, flags=re.S)
open(p, 'w').write(s2)
print('%d rows' % len(rows))
