#!/venv/bin/python
"""Stub calibration (informational, not a registered check): the kernel rules
simpex/kernel.py relies on, observed on the real kernel with real children on
race-free scripts.  Each line prints the rule, what Linux did, and OK/DIFF
against what the stub implements.  Observation of real executions: it decides
nothing about the properties, it only keeps the stub honest.
"""
import errno
import os
import pty
import select
import signal
import socket
import sys
import time

results = []


def rule(name, stub, real):
    ok = stub == real
    results.append(ok)
    print('%-4s %-62s stub=%r real=%r' % ('OK' if ok else 'DIFF', name, stub, real))


def fork_pty(fn):
    pid, fd = pty.fork()
    if pid == 0:
        try:
            fn()
        finally:
            os._exit(0)
    return pid, fd


def drain(fd, timeout=2.0):
    out = b''
    end = None
    while True:
        r, _, _ = select.select([fd], [], [], timeout)
        if not r:
            end = 'timeout'
            break
        try:
            d = os.read(fd, 4096)
        except OSError as e:
            end = errno.errorcode.get(e.errno, e.errno)
            break
        if not d:
            end = 'empty'
            break
        out += d
    return out, end


def main():
    # 1. output queued before the child exits stays readable, then EIO
    pid, fd = fork_pty(lambda: os.write(1, b'abc'))
    os.waitpid(pid, 0)
    time.sleep(0.05)
    rule('pty: data written before exit readable after the child was reaped, then EIO', (b'abc', 'EIO'), drain(fd))
    os.close(fd)
    # 2. hang-up makes the master readable
    pid, fd = fork_pty(lambda: None)
    os.waitpid(pid, 0)
    r, _, _ = select.select([fd], [], [], 1.0)
    rule('pty: select reports the master readable after hang-up', True, bool(r))
    p = select.poll()
    p.register(fd, select.POLLIN | select.POLLHUP)
    ev = p.poll(1000)
    rule('pty: poll reports POLLHUP (no POLLIN) on hang-up without data', True, bool(ev) and bool(ev[0][1] & select.POLLHUP) and not (ev[0][1] & select.POLLIN))
    # 7. write to the master after the slave side is gone
    try:
        os.write(fd, b'x')
        w = 'ok'
    except OSError as e:
        w = errno.errorcode.get(e.errno)
    rule('pty: write to the master after the slave closed is accepted (Linux >= 5; older kernels and BSDs: EIO = stub flavour hup_write=eio)', 'ok', w)
    os.close(fd)
    # 3. kill / waitpid on zombie and reaped pids
    pid = os.fork()
    if pid == 0:
        os._exit(7)
    time.sleep(0.1)
    try:
        os.kill(pid, signal.SIGTERM)
        kz = 'ok'
    except OSError as e:
        kz = errno.errorcode.get(e.errno)
    rule('kill() on a zombie succeeds', 'ok', kz)
    rule('waitpid reports exit code in the status word', (pid, 7 << 8), os.waitpid(pid, os.WNOHANG))
    try:
        os.kill(pid, 0)
        kr = 'ok'
    except OSError as e:
        kr = errno.errorcode.get(e.errno)
    rule('kill() on a reaped pid: ESRCH', 'ESRCH', kr)
    try:
        os.waitpid(pid, 0)
        wr = 'ok'
    except OSError as e:
        wr = errno.errorcode.get(e.errno)
    rule('waitpid() on a reaped pid: ECHILD', 'ECHILD', wr)
    # 4. closing the master hangs up the child
    pid, fd = fork_pty(lambda: time.sleep(5))
    time.sleep(0.1)
    os.close(fd)
    _, st = os.waitpid(pid, 0)
    rule('closing the master kills a default-disposition child with SIGHUP', signal.SIGHUP, os.WTERMSIG(st) if os.WIFSIGNALED(st) else None)
    # 5. hang-up without exit
    def closer():
        for f in (0, 1, 2):
            os.close(f)
        time.sleep(1.0)
    pid, fd = fork_pty(closer)
    time.sleep(0.2)
    t0 = time.time()
    out, end = drain(fd, 0.3)
    alive = os.waitpid(pid, os.WNOHANG) == (0, 0)
    rule('child closes its terminal but lives: master read gives EIO while the child is alive', ('EIO', True), (end, alive))
    os.kill(pid, signal.SIGKILL)
    os.waitpid(pid, 0)
    os.close(fd)
    # 6. line discipline: ONLCR, ECHO
    pid, fd = fork_pty(lambda: (os.write(1, b'a\n'), time.sleep(0.3)))
    time.sleep(0.1)
    rule('ONLCR: child writes a LF, master reads CR LF', b'a\r\n', os.read(fd, 100))
    os.waitpid(pid, 0)
    os.close(fd)
    pid, fd = fork_pty(lambda: (signal.signal(signal.SIGINT, signal.SIG_DFL), time.sleep(0.6)))
    time.sleep(0.1)
    os.write(fd, b'x\n')
    time.sleep(0.1)
    rule('ECHO+ICANON: typed "x LF" is echoed as "x CR LF"', b'x\r\n', os.read(fd, 100))
    os.write(fd, b'\x03')
    _, st = os.waitpid(pid, 0)
    rule('ISIG: VINTR on the master sends SIGINT to the foreground process', signal.SIGINT, os.WTERMSIG(st) if os.WIFSIGNALED(st) else None)
    os.close(fd)
    # 10. stopped child: SIGHUP stays pending until SIGCONT
    pid = os.fork()
    if pid == 0:
        time.sleep(5)
        os._exit(0)
    os.kill(pid, signal.SIGSTOP)
    time.sleep(0.1)
    os.kill(pid, signal.SIGHUP)
    time.sleep(0.1)
    still = os.waitpid(pid, os.WNOHANG) == (0, 0)
    os.kill(pid, signal.SIGCONT)
    _, st = os.waitpid(pid, 0)
    rule('stopped child: SIGHUP pending until SIGCONT, then it dies of SIGHUP', (True, signal.SIGHUP),
         (still, os.WTERMSIG(st) if os.WIFSIGNALED(st) else None))
    # 8. pipes and sockets
    r, w = os.pipe()
    os.write(w, b'q')
    os.close(w)
    rule('pipe: data then empty read at EOF', (b'q', b''), (os.read(r, 10), os.read(r, 10)))
    os.close(r)
    a, b = socket.socketpair()
    a.settimeout(0)
    try:
        a.recv(1)
        nb = 'data'
    except BlockingIOError:
        nb = 'BlockingIOError'
    except socket.timeout:
        nb = 'timeout'
    rule('socket with timeout 0 and nothing to read raises BlockingIOError', 'BlockingIOError', nb)
    a.settimeout(0.05)
    try:
        a.recv(1)
        nb = 'data'
    except socket.timeout:
        nb = 'timeout'
    rule('socket with a positive timeout raises socket.timeout', 'timeout', nb)
    b.close()
    a.settimeout(1)
    rule('socket: peer close gives an empty recv', b'', a.recv(1))
    a.close()
    srv = socket.socket()
    srv.bind(('127.0.0.1', 0))
    srv.listen(1)
    try:
        c = socket.create_connection(srv.getsockname(), 1)
        s2, _ = srv.accept()
        s2.setsockopt(socket.SOL_SOCKET, socket.SO_LINGER, b'\x01\x00\x00\x00\x00\x00\x00\x00')
        s2.close()         # RST
        time.sleep(0.1)
        try:
            c.recv(1)
            rr = 'data'
        except ConnectionResetError:
            rr = 'ECONNRESET'
        try:
            c.shutdown(socket.SHUT_RDWR)
            sh = 'ok'
        except OSError as e:
            sh = errno.errorcode.get(e.errno)
        rule('socket: after a peer reset recv raises ECONNRESET and shutdown raises ENOTCONN', ('ECONNRESET', 'ENOTCONN'), (rr, sh))
        c.close()
    except OSError as e:
        print('SKIP loopback sockets unavailable here: %s' % e)
    srv.close()
    # 9. lowest free descriptor
    r, w = os.pipe()
    os.close(r)
    r2 = os.open('/dev/null', os.O_RDONLY)
    rule('a new descriptor takes the lowest free number (reuse after close)', r, r2)
    os.close(r2)
    os.close(w)
    print('%d of %d rules agree' % (sum(results), len(results)))
    return 0


if __name__ == '__main__':
    sys.exit(main())
