#!/bin/sh
# recheck_seeds.sh [pattern]: every stored seeded change that still applies to /repo HEAD, against the quick tier of the first check
# its meta.json says catches it.  One line per change; summary at the end.  Scratch worktrees under /tmp, removed at once.
HERE="$(cd "$(dirname "$0")/.." && pwd)"
PAT="${1:-*}"
ok=0; miss=0; na=0
for d in "$HERE"/seeded/$PAT; do
  [ -f "$d/meta.json" ] || continue
  id=$(basename "$d")
  chk=$(python3 -c "import json,sys; print((json.load(open('$d/meta.json'))['caught_by'] or ['?'])[0])")
  WT="$(mktemp -d /tmp/reseed_XXXXXX)"; rmdir "$WT"
  git -C /repo worktree add -q --detach "$WT" HEAD || continue
  if ! git -C "$WT" apply "$d/patch.diff" 2>/dev/null; then
    echo "$id n/a (patch no longer applies to HEAD)"; na=$((na+1)); git -C /repo worktree remove --force "$WT"; continue
  fi
  VERIF_REPO="$WT" VERIF_EVIDENCE_DIR="$WT/_ev" VERIF_REPLAY_DIR="$WT/_rp" VERIF_NO_SHRINK=1 "$HERE/simcheck" "$chk" --tier quick >/dev/null 2>&1; e=$?
  if [ $e -eq 1 ]; then ok=$((ok+1)); echo "$id $chk caught"; else miss=$((miss+1)); echo "$id $chk EXIT $e"; fi
  git -C /repo worktree remove --force "$WT"
done
echo "recheck: $ok caught, $miss not caught, $na no longer apply"
