#!/venv/bin/python
"""keep_seed9.py <agent-dir> <n> <property> <name> "<what it changes>" "<needs>" ["<history note>"]
Stores a confirmed seeded change of a two-property agent (ninth round on) under /verif/seeded/<name>/ from /tmp/seedeval."""
import json, os, shutil, sys
sd, n, prop, name, what, needs = sys.argv[1:7]
hist = sys.argv[7] if len(sys.argv) > 7 else ''
ev = json.load(open('/tmp/seedeval/%s_%s.json' % (os.path.basename(sd), n)))
dst = '/verif/seeded/%s' % name
os.makedirs(dst, exist_ok=True)
shutil.copy(os.path.join(sd, '_seed', 'patch%s.diff' % n), os.path.join(dst, 'patch.diff'))
shutil.copy(os.path.join(sd, '_seed', 'demo%s.py' % n), os.path.join(dst, 'demo.py'))
caught = [c for c in ev['checks'] if c['exit'] == 1]
meta = {
    'property': prop,
    'source': 'independent sub-agent given only the texts of two properties and a scratch worktree (%s)' % os.environ.get(
        'SEED_ROUND', 'ninth round: told what kinds of change had been detected and pointed at re-entrancy, exceptions arriving from '
        'outside, unusual but legal environments, numbers at their edges, subclassing, long-lived objects, ordering of side effects'),
    'what_it_changes': what, 'needs_to_manifest': needs,
    'confirmed': {
        'demo_exit_without_change': ev['demo_clean_exit'], 'demo_exit_with_change': ev['demo_patched_exit'],
        'repository_tests_with_change': ev['tests'],
        'how': 'tools/eval_seed.sh: scratch worktree of /repo HEAD, demo run before and after `git apply`, full pytest suite in a private '
               'network namespace (3 replwrap tests that fail on the unchanged tree deselected), quick tier of the listed checks with VERIF_REPO=<worktree>; worktree removed afterwards',
    },
    'checks_run': [{'check': c['check'], 'exit': c['exit'], 'first_clauses': [x.strip() for x in c['clauses'].split('|') if x.strip()][:3]} for c in ev['checks']],
    'caught_by': [c['check'] for c in caught],
}
if hist:
    meta['history'] = hist
json.dump(meta, open(os.path.join(dst, 'meta.json'), 'w'), indent=1)
print(dst, 'caught by', meta['caught_by'])
