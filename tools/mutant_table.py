#!/venv/bin/python
"""mutant_table.py: rewrites the mutant table in DESIGN.md (Appendix A) from mutants/catalogue.json and mutants/last_run.json
(written by a full `./simcheck selftest-mutants`)."""
import json, os, re
VERIF = os.path.dirname(os.path.dirname(os.path.abspath(__file__)))
cat = json.load(open(os.path.join(VERIF, 'mutants', 'catalogue.json')))
last = json.load(open(os.path.join(VERIF, 'mutants', 'last_run.json')))
rows = []
for m in cat['mutants']:
    lr = last.get(m['id'], {})
    files = ', '.join(sorted(set(os.path.basename(e['file']) for e in m['edits'])))
    got = ', '.join(lr.get('clauses', [])) if lr.get('caught') else ('**MISSED**' if lr else 'not run')
    rows.append('| %s | %s | %s | %s |' % (m['id'], files, m['what'].replace('|', '/'), got))
head = '| id | file | change | caught by (quick tier) |\n|---|---|---|---|\n'
p = os.path.join(VERIF, 'DESIGN.md')
s = open(p).read()
new = head + '\n'.join(rows) + '\n'
s2, n = re.subn(r'\| id \| file \| change \| caught by \(quick tier\) \|\n\|---\|---\|---\|---\|\n(?:\|.*\n)*', lambda _: new, s, count=1)
assert n == 1
ncaught = sum(1 for m in cat['mutants'] if last.get(m['id'], {}).get('caught'))
s2 = re.sub(r'last full run: \d+ of \d+ caught', 'last full run: %d of %d caught' % (ncaught, len(cat['mutants'])), s2)
open(p, 'w').write(s2)
print('%d mutants, %d caught in the last full run, %d equivalent' % (len(cat['mutants']), ncaught, len(cat['equivalent'])))
