#!/bin/sh
# recheck_benign.sh [checks]: every stored behaviour-preserving patch that still applies to /repo HEAD against the quick tier of the
# given checks (default: all).  Any exit other than 0 is printed; summary at the end.
HERE="$(cd "$(dirname "$0")/.." && pwd)"
IDS="${1:-$("$HERE/simcheck" list | cut -d' ' -f1 | tr '\n' ' ')}"
clean=0; alarm=0; na=0
for d in "$HERE"/benign/*/; do
  [ -f "$d/patch.diff" ] || continue
  id=$(basename "$d")
  WT="$(mktemp -d /tmp/rebenign_XXXXXX)"; rmdir "$WT"
  git -C /repo worktree add -q --detach "$WT" HEAD || continue
  if ! git -C "$WT" apply "$d/patch.diff" 2>/dev/null; then echo "$id n/a"; na=$((na+1)); git -C /repo worktree remove --force "$WT"; continue; fi
  bad=""
  for c in $IDS; do
    VERIF_REPO="$WT" VERIF_EVIDENCE_DIR="$WT/_ev" VERIF_REPLAY_DIR="$WT/_rp" VERIF_NO_SHRINK=1 "$HERE/simcheck" "$c" --tier quick >"$WT/_out.txt" 2>&1; e=$?
    if [ $e -ne 0 ]; then bad="$bad $c:$e"; grep -E "^  clause=" "$WT/_out.txt" | head -2 | cut -c1-200; fi
  done
  if [ -z "$bad" ]; then clean=$((clean+1)); echo "$id clean"; else alarm=$((alarm+1)); echo "$id ALARM$bad"; fi
  git -C /repo worktree remove --force "$WT"
done
echo "recheck_benign: $clean clean, $alarm with alarms, $na no longer apply"
