#!/venv/bin/python
"""keep_seed.py <seed-dir> <n> <property> "<what it changes>" "<what it needs to manifest>"
Stores a confirmed seeded change under /verif/seeded/<Cxx>-<n>/ using the evaluation record in /tmp/seedeval."""
import json, os, shutil, sys
sd, n, prop, what, needs = sys.argv[1:6]
name = '%s_%s' % (os.path.basename(sd), n)
ev = json.load(open('/tmp/seedeval/%s.json' % name))
dst = '/verif/seeded/%s%s-%s' % (os.path.basename(sd), os.environ.get('SEED_SUFFIX', ''), n)
os.makedirs(dst, exist_ok=True)
shutil.copy(os.path.join(sd, '_seed', 'patch%s.diff' % n), os.path.join(dst, 'patch.diff'))
shutil.copy(os.path.join(sd, '_seed', 'demo%s.py' % n), os.path.join(dst, 'demo.py'))
caught = [c for c in ev['checks'] if c['exit'] == 1]
meta = {
    'property': prop, 'source': 'independent sub-agent given only the property text and a scratch worktree' + {'': '', 'R2': ' (second round: asked for rare trigger conjunctions)', 'r3': ' (third round: asked for value-dependent triggers, rarely used parameters, reused objects, error paths)', 'r4': ' (fourth round: as the third, on the properties the third did not cover)', 'r8': ' (eighth round: given one line per earlier seeded change and asked for something different in kind)', 'r7': ' (seventh round: asked for unusual constructor arguments, edge values, the delays, transport-specific methods, pxssh and REPLWrapper beyond the main path, ANSI combinations)', 'r6': ' (sixth round: asked for attributes changed between calls, third and later uses, docstring promises, differences between transports, arguments helpers forward, look-alike text, exit paths)', 'r5': ' (fifth round: asked for feature interactions, what callbacks and filters observe, end-of-stream flavours, unit and type slips, code after caught exceptions, rarely combined methods)'}.get(os.environ.get('SEED_SUFFIX', ''), ' (later round)'),
    'what_it_changes': what, 'needs_to_manifest': needs,
    'confirmed': {
        'demo_exit_without_change': ev['demo_clean_exit'], 'demo_exit_with_change': ev['demo_patched_exit'],
        'repository_tests_with_change': ev['tests'],
        'how': 'tools/eval_seed.sh: scratch worktree of /repo HEAD, demo run before and after `git apply`, full pytest suite in a private '
               'network namespace (3 replwrap tests that fail on the unchanged tree deselected), quick tier of the listed checks with VERIF_REPO=<worktree>; worktree removed afterwards',
    },
    'checks_run': [{'check': c['check'], 'exit': c['exit'], 'first_clauses': [x.strip() for x in c['clauses'].split('|') if x.strip()][:3]} for c in ev['checks']],
    'caught_by': [c['check'] for c in caught],
}
json.dump(meta, open(os.path.join(dst, 'meta.json'), 'w'), indent=1)
print(dst, 'caught by', meta['caught_by'])
