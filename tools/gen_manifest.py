#!/venv/bin/python
"""Regenerate MANIFEST.json from the check registry (run from /verif)."""
import json
import os
import sys

VERIF = os.path.dirname(os.path.dirname(os.path.abspath(__file__)))
sys.path.insert(0, VERIF)
sys.path.insert(0, '/repo')
from checks import registry   # noqa

NA = {
    'C13': 'launch fidelity is decided by pure functions of a string / the file system (split_command_line, which) and by a '
           'real fork/exec, which deterministic simulation replaces by construction; no schedule, clock, fault or interleaving '
           'is involved (DESIGN 5)',
    'C19': 'screen operations are a deterministic in-memory data structure driven by method calls; nothing for a simulator to '
           'schedule, delay or fault (DESIGN 5)',
    'C20': 'pattern-form equivalence and TypeError-before-consume are functions of the arguments only; the outcome does not '
           'depend on any schedule, fault or history (DESIGN 5)',
}

LEVEL_TEXT = {
    'exploration': 'seeded deterministic simulation: the real pexpect/ptyprocess code runs against a simulated kernel, clock and '
                   'scripted peers; every run is one seed-determined schedule + fault sequence judged by reference-model oracles; '
                   'a clean batch is evidence over the sampled schedules, not proof',
    'fault_enumeration': 'deterministic simulation with bounded complete placement sweeps (a peer action / fault placed before '
                         'every intercepted system call of the operation, all status values, all short operation sequences) '
                         'plus seeded exploration beyond the bound',
}

ALL = ['C%02d' % i for i in range(1, 21)]


def main():
    checks = []
    for pid in registry.ids():
        spec = registry.get(pid)
        checks.append({
            'property_id': pid,
            'quick_cmd': './simcheck %s --tier quick' % pid,
            'thorough_cmd': './simcheck %s --tier thorough' % pid,
            'evidence_file': 'evidence/%s.json' % pid,
            'replay_cmd_template': './simcheck replay {path}',
            'engine': 'simpex',
            'level_claimed': {'category': spec.level, 'text': LEVEL_TEXT[spec.level] + '. ' + spec.title,
                              'design_ref': 'DESIGN.md section 4 (%s)' % pid},
            'level_note': 'trusted base: simpex kernel stub (calibrated against Linux by tools/calibrate_kernel.py), the reference '
                          'models in simpex/model.py and the check module, CPython. Assumptions: ' + '; '.join(spec.assumptions),
            'technique': 'deterministic simulation with fault injection (seeded schedule/fault search, virtual clock, simulated kernel)',
        })
    na = []
    for pid in ALL:
        if pid in registry.ids():
            continue
        na.append({'property_id': pid, 'reason': NA.get(pid, 'check not built yet in this session (planned in DESIGN.md section 4)')})
    man = {
        'version': 1,
        'setup_cmd': './simcheck list >/dev/null',
        'hooks': {
            'guard': 'PEXPECT_VERIF_SIM',
            'enable': 'none needed: every seam is a module/instance attribute rebound from the harness (simpex/shim.py); the guard '
                      'variable is reserved and guards nothing in /repo',
            'baseline_off_cmd': 'cd /repo && /venv/bin/python -m pytest -ra -q -p no:cacheprovider --timeout=900 '
                                '--continue-on-collection-errors --junitxml=<file>',
            'source_commits': [],
            'add_only': True,
        },
        'engines': [{'name': 'simpex', 'path': 'simpex/', 'serves_properties': registry.ids(),
                     'kind_free_text': 'deterministic simulator: virtual clock + event heap, simulated kernel (fds, pipes, pty line '
                                       'discipline, sockets, processes/signals/waitpid, select/poll), baton-scheduled real threads, '
                                       'virtual-time asyncio loop, scripted peers, seeded scenario generator, ddmin shrinker, replay'}],
        'checks': checks,
        'not_applicable': na,
        'notes': 'VERIF_SEED selects the batch of run seeds; VERIF_REPO=<dir> points the checks at another tree (used for seeded '
                 'mutants in scratch worktrees). Exit 2 = harness error (never reported as a violation, never exit 0).',
    }
    with open(os.path.join(VERIF, 'MANIFEST.json'), 'w') as f:
        json.dump(man, f, indent=1)
    print('MANIFEST.json: %d checks, %d not applicable' % (len(checks), len(na)))


if __name__ == '__main__':
    main()
