#!/bin/sh
# Run every registered check (quick tier by default) and report exit codes.
cd "$(dirname "$0")/.."
TIER="${1:-quick}"
rc=0
for c in $(./simcheck list | cut -d' ' -f1); do
  out=$(./simcheck "$c" --tier "$TIER" 2>&1); e=$?
  echo "$out" | grep -E "^(VIOLATION|KNOWN-FINDING|HARNESS|WARNING|NOTE)" | cut -c1-200
  echo "$out" | tail -1 | cut -c1-220
  echo "== $c exit $e"
  [ $e -ne 0 ] && rc=1
done
exit $rc
