#!/bin/sh
# run_all_seed.sh <seed> [tier]: every check with another VERIF_SEED, evidence and replays kept out of /verif
cd "$(dirname "$0")/.."
S="$1"; TIER="${2:-quick}"
D=$(mktemp -d /tmp/runall_seed_XXXXXX)
rc=0
for c in $(./simcheck list | cut -d' ' -f1); do
  out=$(VERIF_SEED="$S" VERIF_EVIDENCE_DIR="$D/ev" VERIF_REPLAY_DIR="$D/rp" ./simcheck "$c" --tier "$TIER" 2>&1); e=$?
  echo "$out" | grep -E "^(VIOLATION|HARNESS|  clause)" | cut -c1-220
  echo "== $c seed $S exit $e"
  [ $e -ne 0 ] && rc=1
done
[ $rc -eq 0 ] && rm -rf "$D" || echo "kept $D"
exit $rc
