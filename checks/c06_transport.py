"""C06: transport fidelity -- all peer output delivered once, in order, before EOF."""
from simpex import fidelity
from simpex.runner import CheckSpec
from checks.c01_c03_engine import COMPONENTS

RULE = ('(a) bounded complete sweep: for each base scenario (transport x timeout {0, 3 ms, default} x size {1,3,2000} x select/poll x '
        'EOF flavour) the peer action {write 5 bytes then exit | second write | exit after an earlier write} is placed immediately '
        'before EVERY intercepted system call n of the reader, with the dead child reapable at once or after a gap; '
        '(a2) every choice sequence of the thread scheduler (main thread vs PopenSpawn reader thread) of length 7 (10 thorough) for a '
        'child writing 1500 bytes in two pieces and exiting, x size {1,700,2000} x timeout {0, 2 ms}; '
        '(b) seeded exploration: 0..300 KB in seeded pieces/delays/ordinal placements, torn reads, coalesced writes, pipe/pty '
        'capacity 1..65536, maxread/size 1..100000, exit / kill / close / close-then-exit, reader thread pre-emption (popen), '
        'drain by read_nonblocking(size, T) loop, expect(EOF) or read(). Oracle: concatenation of everything returned == kernel '
        'log of what reached the descriptor, EOF only after the last byte (lost tail / duplicate / corruption are separate '
        'clauses), EOF arrives within 3 virtual s of the peer ending, every read <= size, socket timeout unchanged after every '
        'call (the application may re-time its socket between reads). Added later: unicode mode with multi-byte payloads, '
        'Thread.is_alive() as a pre-emption point, EINTR, processes with > 1024 descriptors where select() raises (use_poll=True). '
        'Ninth round: the fault kind interrupt (an exception from outside -- Ctrl-C, a raising signal handler -- abandons the call where it really waits: select/poll/recv/sleep/waitpid; the application goes on using the object) in all three drain modes: nothing returned may be lost, the socket keeps its own timeout. Tenth round: drain mode read_n (a bounded search that times out, then read(size) to the end of the stream). Non-trivial: peer wrote >= 1 byte; distinct by trace digest')

ASSUME = ['complete writes on blocking descriptors; peer death latency (descriptors closed -> reapable) <= 20 ms',
          'pty output queued before the slave closes stays readable by the master (Linux behaviour, calibrated)',
          'exceptions from outside (Ctrl-C, a raising signal handler) are injected only where the code under test really waits (select, poll, recv, sleep, a blocking waitpid): between two arbitrary bytecodes no code can promise anything and nothing is judged there',
          'kernel stub rules (simpex/kernel.py) match Linux for what pexpect observes']


def nontrivial(scn, info):
    return info.get('counters', {}).get('bytes', 0) > 0


def tag(scn, v):
    return '%s/%s' % (v.site, scn.get('transport'))


def spec(pid):
    return CheckSpec('C06', 'transport fidelity', fidelity.generate, fidelity.run, level='fault_enumeration',
                     runs={'quick': 25000, 'thorough': 500000}, budget_s={'quick': 50, 'thorough': 900},
                     rule=RULE, assumptions=ASSUME, components=COMPONENTS, nontrivial=nontrivial, tag=tag,
                     enumerate_fn=fidelity.enumerate_scenarios)
