"""C05: a timeout is an overall bound, honoured whatever the child does."""
from simpex import deadline
from simpex.runner import CheckSpec
from checks.c01_c03_engine import COMPONENTS

RULE = ('(a) complete sweep of the deadline tie: the matching data placed at every microsecond from 40 us before to 40 us after a '
        '10 ms deadline, for 4 transports x {expect, expect_exact, read_nonblocking} x two syscall-cost tables; (b) seeded: '
        'one call with timeout T in {-1 (instance default), None, 0, 0.01..30 s} on entry point {expect, expect_exact, expect_list, '
        'expect_loop, read_nonblocking, waitnoecho} x transport {pty, fd, socket, popen} x select/poll x bytes/unicode, against a '
        'peer that is silent, trickles non-matching bytes every T/50..T/2, bursts at deadline-20ms..deadline+20ms, closes its '
        'terminal but lives on for 5..1000 s, dies, closes, or produces the match late (up to 1 h of virtual time for T=None). '
        'Oracle (virtual stopwatch): finite T => returns by T+0.5 s; TIMEOUT with T>0 while connected => elapsed >= T; T=None => '
        'never TIMEOUT and returns within 0.5 s of the awaited event; T=0 => examines pending + immediately readable data and '
        'does not block; -1 == instance default on every entry point; a match delivered well inside T is reported. '
        'Added later: the tie sweep also delivers NON-matching text, uses select and poll, and runs on a uniformly slow machine '
        '(0.2 ms per call, +-1 ms in 25 us steps); a peer that delivers only the head of a multi-byte character; runs of EINTR at '
        '50..97 % of the timeout; the socket object\'s own timeout varied; processes with > 1024 descriptors (poll only). '
        'Ninth round: timeouts of months to decades (2.2e6 .. 1e9 s, int and float) with an answer that arrives soon -- the simulated poll() refuses more than a C int of milliseconds as the real one does. Non-trivial: the call blocked at least once or consumed a read; distinct by trace digest')

ASSUME = ['no wall-clock steps are injected (pexpect computes deadlines from time.time())',
          'death latency of a signalled child is within pexpect\'s 0.1 s grace sleeps',
          'EINTR is injected as InterruptedError reaching pexpect.utils (pre-PEP-475 runtimes, which setup.py still declares); a run in '
          'which it escapes uncaught (a tree relying on PEP 475) is set aside and counted, not judged',
          'per-syscall virtual cost 1..20 us, in a fifth of the runs 0.05..5 ms (slow machine); the stopwatch excludes the cost of the '
          'system calls themselves, waiting inside them counts; epsilon 0.5 virtual s']


def nontrivial(scn, info):
    return info.get('vt', 0) > 0.0005 or info.get('nchunks', 0) > 0


def tag(scn, v):
    return '%s/%s' % (v.detail.get('blocked_in'), scn.get('peer_kind'))


def spec(pid):
    return CheckSpec('C05', 'deadlines are overall bounds', deadline.generate, deadline.run, level='exploration',
                     runs={'quick': 30000, 'thorough': 600000}, budget_s={'quick': 45, 'thorough': 900},
                     rule=RULE, assumptions=ASSUME, components=COMPONENTS, nontrivial=nontrivial, tag=tag,
                     enumerate_fn=deadline.enumerate_scenarios)
