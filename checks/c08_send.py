"""C08: send fidelity -- the peer receives exactly what was sent, once, in order."""
from simpex import sendlog
from simpex.runner import CheckSpec
from checks.c01_c03_engine import COMPONENTS

RULE = ('seeded histories (1..10 calls) of send / sendline / write / writelines / sendcontrol(every name incl. unmapped) / sendeof / '
        'sendintr interleaved with reads and gaps, payloads over all 256 byte values (bytes mode), non-ASCII text incl. NUL and '
        'control characters, text given to a bytes-mode object (must go out as UTF-8), empty strings, 100..3000-byte payloads '
        'against an input queue of 1..64 bytes with a slow reading peer; encodings None/utf-8/utf-16/utf-32/latin-1(replace/ignore); '
        'transports pty (raw-mode cat/sink so the line discipline masks nothing), fd and socket (stream pair), popen (pipes + '
        'reader thread pre-emption). Oracle: kernel log of bytes written towards the peer == what the peer read == concatenation '
        'in call order of the arguments encoded by ONE incremental encoder for the whole history (+ one linesep per sendline, one '
        'control byte per mapped control call, nothing for unmapped); send/sendline return the number of bytes written; write '
        'returns None. Added later: stateful encodings (iso2022_jp), torn reads and awaited reads inside the histories, linesep / '
        'delaybeforesend changed between calls. Ninth round: the fault kind interrupt (an exception from outside -- Ctrl-C, a raising signal handler -- abandons the call where it really waits: select/poll/recv/sleep/waitpid; the application goes on using the object) in the pause before sending: an abandoned send has sent nothing and the sends that follow come out as if it had never been made (reference encoder rolled back; stateful encodings and BOMs). Non-trivial: >= 1 byte sent; distinct by trace digest')

ASSUME = ['fault-free runs: complete writes on blocking descriptors. Two fault configurations are kept apart and judged per call with '
          'a relaxed oracle (the peer holds a PREFIX of what the call was asked to send, send()/sendline() return what arrived): short '
          'writes on the pty (a signal during a long write), and a socket with its own timeout against a peer that stops reading '
          '(sendall gives up midway; socket.send takes what fits)',
          'os.linesep is LF on this platform',
          'exceptions from outside (Ctrl-C, a raising signal handler) are injected only where the code under test really waits (select, poll, recv, sleep, a blocking waitpid): between two arbitrary bytecodes no code can promise anything and nothing is judged there']


def nontrivial(scn, info):
    return info.get('counters', {}).get('sent_bytes', 0) > 0


def tag(scn, v):
    return '%s/%s' % (scn.get('transport'), v.site)


def spec(pid):
    return CheckSpec('C08', 'send fidelity', lambda rng: sendlog.generate(rng, 'C08'), lambda s: sendlog.run(s, 'C08'),
                     level='exploration', runs={'quick': 40000, 'thorough': 800000}, budget_s={'quick': 45, 'thorough': 900},
                     rule=RULE, assumptions=ASSUME, components=COMPONENTS, nontrivial=nontrivial, tag=tag)
