"""C07: unicode mode decodes the stream as a whole, however reads split it."""
from simpex import unicode_fam
from simpex.runner import CheckSpec
from checks.c01_c03_engine import COMPONENTS

RULE = ('(a) complete sweep: 7 short texts (2/3/4-byte UTF-8, surrogate pairs, CJK) x 12 encodings (incl. the stateful 7-bit iso2022_jp, hz, utf-7) x EVERY byte offset as the cut, '
        'delivered as two peer writes or as one write torn by the kernel, transports rotated (all four in the thorough tier); '
        '(b) seeded exploration: texts of 1..60 characters over ASCII/2/3/4-byte/CJK pools x 21 encodings and spellings (stateful 7-bit codecs, aliases such as utf8 / latin1; + bytes mode with '
        'arbitrary bytes) x up to 3 cuts x {split write, torn read, maxread 1..3} x 4 transports x codec_errors strict/replace/'
        'ignore (invalid bytes injected only under replace/ignore) x {logfile, logfile_read} x blocking or awaited (asyncio path, pty/fd) x drain by read()/expect(EOF)/'
        'per-character expect. Oracle: text handed to the caller, text fed to matching (recorded reads) and text written to each '
        'log == codecs.decode(whole byte stream, encoding, errors) and has the API string type; bytes mode passes bytes through. '
        'Inputs on which CPython\'s own incremental decoder is chunk-dependent are skipped and counted. '
        'Added later: codec_errors backslashreplace / surrogateescape; fdspawn reading through a regular file that a peer keeps '
        'appending to (an empty read at the current end, reported as EOF, is not the end of the stream: read on after the next append). '
        'Non-trivial: at least one cut; distinct by trace digest')

ASSUME = ['streams never end inside a character (as the property states)',
          'CPython incremental decoders are chunk-independent on the inputs kept (checked per input, others skipped)']


def nontrivial(scn, info):
    return bool(scn.get('cuts')) or scn.get('how') == 'maxread'


def tag(scn, v):
    return '%s/%s' % (scn.get('transport'), 'async' if scn.get('async') else 'sync')


def spec(pid):
    return CheckSpec('C07', 'unicode decoding across reads', unicode_fam.generate, unicode_fam.run, level='exploration',
                     runs={'quick': 40000, 'thorough': 800000}, budget_s={'quick': 45, 'thorough': 900},
                     rule=RULE, assumptions=ASSUME, components=COMPONENTS, nontrivial=nontrivial, tag=tag,
                     enumerate_fn=unicode_fam.enumerate_scenarios)
