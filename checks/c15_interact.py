"""C15: interact() is a transparent two-way pipe until the escape character."""
from simpex import interact_fam
from simpex.runner import CheckSpec
from checks.c01_c03_engine import COMPONENTS

RULE = ('(a) complete placement: the child prints 5 or 2500 bytes and exits, the exit placed before EVERY intercepted call of the '
        'copy loop, select and poll, reapable at once or after 300 us; (b) seeded exploration: user keystroke bursts over all 256 '
        'byte values / multi-byte text / bursts of 1001..2600 bytes, escape character {^], ^A, ~, None} absent / first / middle / '
        'last / repeated / in a burst of its own, input/output filters, 0..1500 characters pending at entry, child that echoes or '
        'prints 1..6000-byte pieces and exits at a seeded time, tiny input queue, short writes towards the child (the write-all '
        'loop), bytes/unicode, log files attached. Oracle: display == pending-at-entry + child output (through output_filter), '
        'complete when interact() returned because the child exited, a prefix when it returned on escape; what the child received '
        '== typed stream (through input_filter) up to an escape occurrence, nothing at or after it; interact() returns only on '
        'escape or child exit; terminal attributes afterwards == before, also when it raises; log files get the API string type '
        'and the copied text. Added later: input filters that produce or remove the escape byte, child output over all 256 byte values '
        'and multi-byte text (incl. the escape byte), EINTR. Ninth round: pending output produced by REAL reads whose search buffer an earlier bounded search trimmed (all of it is due on the display; C15.pending_again: with the buffer attribute empty the next call must not hand it back); an escape character without a Latin-1 byte (only the terminal mode is judged); interact() abandoned from outside (terminal mode). Tenth round: pending multi-byte text that stops inside a character (the bytes held by the decoder are due on the display and in the log of the session), an outer terminal that is non-canonical with its own VMIN/VTIME. Non-trivial: >= 1 byte typed or printed; distinct by trace digest')

ASSUME = ['with several escape characters in one read any one of them may end the session (the statement does not fix which)',
          'the user starts typing >= 200 us after interact() was entered (raw mode is set within the first four calls)',
          'exceptions from outside (Ctrl-C, a raising signal handler) are injected only where the code under test really waits (select, poll, recv, sleep, a blocking waitpid): between two arbitrary bytecodes no code can promise anything and nothing is judged there']


def nontrivial(scn, info):
    c = info.get('counters', {})
    return c.get('typed', 0) > 0 or c.get('child_wrote', 0) > 0


def tag(scn, v):
    return '%s/%s' % (v.site, 'poll' if scn.get('use_poll') else 'select')


def spec(pid):
    return CheckSpec('C15', 'interact() transparency', interact_fam.generate, lambda s: interact_fam.run(s, 'C15'),
                     level='fault_enumeration', runs={'quick': 20000, 'thorough': 400000}, budget_s={'quick': 50, 'thorough': 900},
                     rule=RULE, assumptions=ASSUME, components=COMPONENTS, nontrivial=nontrivial, tag=tag,
                     enumerate_fn=interact_fam.enumerate_scenarios)
