"""C01 stream conservation, C02 genuine/leftmost/lowest-index, C03 naive-model
equality: one engine family, each check evaluates its own clauses."""
from simpex import engine
from simpex.runner import CheckSpec

COMPONENTS = {
    'real': ['pexpect.expect.Expecter/searcher_re/searcher_string', 'pexpect.spawnbase.SpawnBase',
             'pexpect.fdpexpect.fdspawn', 'pexpect.pty_spawn.spawn', 'pexpect.socket_pexpect.SocketSpawn',
             'pexpect.popen_spawn.PopenSpawn (+ its real reader thread under a baton)',
             'pexpect.utils select/poll wrappers', 'ptyprocess.PtyProcess (all but __init__/spawn)', 're', 'codecs'],
    'stub': ['kernel: pipes, pty, sockets, processes, waitpid, select/poll (simpex.kernel)',
             'clock (virtual)', 'subprocess.Popen (FakePopen)', 'peer processes (scripted writer)'],
}

RULES = {
    'C01': 'seeded scenarios: stream over {a,b,c,CR,LF}(+non-ASCII in unicode mode) cut into peer writes with seeded delays / '
           'ordinal placement, torn reads, maxread 1..100000, 4 transports; driver history of expect/expect_exact/expect_list/'
           'read/readline/readlines/iteration/buffer assignment with seeded pattern lists, windows, timeouts. '
           'Oracle: after every primitive expect call, before+after+buffer (match) or before (TIMEOUT/EOF) == text pending '
           'before the call + reads made during it. Ninth round: the fault kind interrupt (an exception from outside -- Ctrl-C, a raising signal handler -- abandons the call where it really waits: select/poll/recv/sleep/waitpid; the application goes on using the object) with the abandoned call judged like a cancelled awaited call (consumed nothing, what it read is pending); patterns of 73..1000 characters; negative timeouts other than -1 (held to conservation and a-pending-occurrence-wins only); compiled patterns of the other string type with flags of their own. Tenth round: runs take place at different clock readings (the present epoch, 2100, day one); positional argument forms; an occurrence whose look-ahead context is completed by a later read of the same call (constructed in 2 % of the runs); fdspawn over a terminal device set up by the application. Non-trivial: at least one call consumed >=1 read or a fault fired; '
           'distinct: by full trace digest',
    'C02': 'same runs, generator biased to colliding pattern lists with EOF/TIMEOUT markers interleaved. Oracle per text match: '
           'pattern i matches `after` where `before` ends in the searched window, match object agrees (span, groups, re), '
           'match_index == i, no listed pattern occurs earlier, first listed wins ties. Non-trivial/distinct as C01',
    'C03': 'same runs. Oracle: each call outcome (which read it returned at, index, before, after, buffer) equals the naive '
           'procedure "after each read search all pending text (or its last W characters)" fed the recorded read sequence. '
           'Non-trivial/distinct as C01',
}

ADDED = (' Added in later rounds: instance attributes re-tuned between calls (searchwindowsize, maxread, timeout, delayafterread), one '
         'pattern list object reused and edited in place, strings compiled by pexpect itself (clause: searched exactly the patterns '
         'asked for, with DOTALL and with IGNORECASE iff the instance says so), case-variant streams under ignorecase incl. letters '
         'whose case folding is wider than str.lower() (long s, Kelvin sign, final sigma), unusual byte values (NUL, 0xff, bare CR), '
         'EINTR on the n-th wait, processes with > 1024 descriptors (use_poll=True runs), kernel-truth decode clause in unicode mode, '
         'compiled patterns with re.VERBOSE, a second unrelated object alive next to the one under test (used between its calls, or '
         'driven by a second caller thread with the same pattern list and a pre-emption point after every search), and (0.2 %) a '
         '70-110 K character session handed back line by line.')
for _k in RULES:
    RULES[_k] += ADDED

ASSUME = ['anchors and look-around assertions see exactly the searched text (the last W characters under a window) in model and oracle alike',
          'kernel stub rules (simpex/kernel.py) match Linux for what pexpect observes',
          'exceptions from outside (Ctrl-C, a raising signal handler) are injected only where the code under test really waits (select, poll, recv, sleep, a blocking waitpid): between two arbitrary bytecodes no code can promise anything and nothing is judged there',
          'no wall-clock steps; complete writes on blocking descriptors']


def nontrivial(scn, info):
    return info.get('nchunks', 0) > 0 or bool(info.get('faults'))


def tag(scn, v):
    d = v.detail
    c = d.get('call') or {}
    return '%s/%s' % (c.get('api'), scn.get('transport'))


def spec(pid):
    clauses = {'C01': ['C01'], 'C02': ['C02'], 'C03': ['C03']}[pid]

    def run(scn):
        return engine.run(scn, clauses)

    def gen(rng):
        return engine.generate(rng, 'engine')
    return CheckSpec(pid, {'C01': 'stream conservation', 'C02': 'genuine leftmost lowest-index match',
                           'C03': 'no missed or late match'}[pid],
                     gen, run, level='exploration',
                     runs={'quick': 40000, 'thorough': 1500000}, budget_s={'quick': 40, 'thorough': 900},
                     rule=RULES[pid], assumptions=ASSUME, components=COMPONENTS,
                     nontrivial=nontrivial, tag=tag)
