"""C11: logging fidelity -- the log files are an exact transcript."""
from simpex import sendlog, interact_fam, unicode_fam, run_fam, async_fam
from simpex.runner import CheckSpec
from checks.c01_c03_engine import COMPONENTS

RULE = ('the C08 histories (send family interleaved with reads against an echoing raw-mode peer) with every subset of {logfile, '
        'logfile_read, logfile_send} attached as in-memory recorders that log each write and flush with a shared sequence number; '
        '4 transports, bytes/unicode (utf-8, utf-16, utf-32, latin-1), control characters. Oracle: logfile_read == concatenation of '
        'the reads delivered to matching; logfile_send == concatenation of what each send-family call was asked to send (coerced '
        'argument, + linesep for sendline, control byte decoded in unicode mode); logfile == both merged in operation order; every '
        'write is followed by a flush before the next write; every logged object has the API string type. '
        'In an eighth of the runs (C07 scenarios, blocking and awaited) the read log is compared with the decoding of the bytes the '
        'kernel delivered. During interact() (a quarter of the runs): logs get the API string type; logfile_read == what was copied to the display; '
        'logfile_send == what was forwarded to the child; a sendcontrol() after the session logs exactly its control byte. Added later: log '
        'files switched to another object or to None in mid-history (each object holds the transcript of exactly the period it was '
        'attached), awaited reads with the kernel-truth clause, a failing sendall (the argument is logged although the send fails). '
        'In a twentieth of the runs the log is handed to run(logfile=...) (C12 dialogues): every write is the next chunk read or the next '
        'response sent, all of them are there, each followed by a flush. Tenth round: a twelfth of the runs are awaited histories of the C14 generator (deadline ties, text arriving while no call is outstanding) with a read log judged against the bytes the kernel handed over. Ninth round: log doubles that are containers (falsy while empty) in a quarter of the runs; sends abandoned from outside (the log may or may not hold the abandoned call). Non-trivial: >= 1 log write; distinct by trace digest')

ASSUME = ['a quarter of the runs are interact() sessions (C15 harness) with log files attached (clauses C11.interact_*)']


def nontrivial(scn, info):
    c = info.get('counters', {})
    return c.get('sent_bytes', 0) > 0 or c.get('read_chunks', 0) > 0 or c.get('typed', 0) > 0 or c.get('child_wrote', 0) > 0 or scn.get('family') in ('unicode', 'run', 'async')


def tag(scn, v):
    return '%s/%s' % (scn.get('transport'), v.detail.get('log'))


def generate(rng):
    if rng.random() < 0.12:
        # read-side logging against kernel truth, incl. the asyncio path (PatternWaiter.data_received logs too)
        scn = unicode_fam.generate(rng)
        scn['logs'] = rng.choice([['logfile_read'], ['logfile'], ['logfile', 'logfile_read']])
        if scn['transport'] in ('fd', 'pty') and scn.get('how') != 'growing_file' and rng.random() < 0.6:
            scn['async'] = True
            if scn.get('drain') == 'read':
                scn['drain'] = 'expect_eof'
        return scn
    if rng.random() < 0.08:
        # awaited histories with deadline ties (C14's generator) and a read log: everything the kernel handed over is in it
        scn = async_fam.generate(rng)
        if not scn.get('bad_byte') and scn.get('second_loop_at') is None:
            scn['logs'] = ['logfile_read']
            if rng.random() < 0.25:
                scn['log_kind'] = 'len'
            return scn
    if rng.random() < 0.05:
        # run(logfile=...): the transcript of a whole scripted dialogue
        scn = run_fam.generate(rng)
        scn['logfile'] = True
        return scn
    if rng.random() < 0.25:
        scn = interact_fam.generate(rng)
        if scn.get('late_log') or rng.random() < 0.25:
            scn['logs'] = []
            scn['late_log'] = True            # no log at entry, a read log attached from the output filter during the session
            scn.setdefault('late_at', rng.choice([1, 2, 3]))
            return scn
        scn['logs'] = rng.choice([['logfile'], ['logfile_read', 'logfile_send'], ['logfile_read'], ['logfile_send']])
        return scn
    return sendlog.generate(rng, 'C11')


def run(scn):
    if scn.get('family') == 'unicode':
        vs, info = unicode_fam.run(scn)
        out = []
        for v in vs:
            if v.clause in ('C07.log_text', 'C07.log_type'):
                v.clause = 'C11.read_log_kernel' if v.clause == 'C07.log_text' else 'C11.type'
                v.detail['log'] = 'async' if scn.get('async') else 'sync'
                out.append(v)
        return out, info
    if scn.get('family') == 'async':
        vs, info = async_fam.run(scn)
        return [v for v in vs if v.clause.startswith('C11')], info
    if scn.get('family') == 'run':
        vs, info = run_fam.run(scn)
        return [v for v in vs if v.clause.startswith('C11')], info
    if scn.get('family') == 'interact':
        return interact_fam.run(scn, 'C11')
    return sendlog.run(scn, 'C11')


def spec(pid):
    return CheckSpec('C11', 'logging fidelity', generate, run,
                     level='exploration', runs={'quick': 40000, 'thorough': 800000}, budget_s={'quick': 45, 'thorough': 900},
                     rule=RULE, assumptions=ASSUME, components=COMPONENTS, nontrivial=nontrivial, tag=tag)
