"""C11: logging fidelity -- the log files are an exact transcript."""
from simpex import sendlog
from simpex.runner import CheckSpec
from checks.c01_c03_engine import COMPONENTS

RULE = ('the C08 histories (send family interleaved with reads against an echoing raw-mode peer) with every subset of {logfile, '
        'logfile_read, logfile_send} attached as in-memory recorders that log each write and flush with a shared sequence number; '
        '4 transports, bytes/unicode (utf-8, utf-16, utf-32, latin-1), control characters. Oracle: logfile_read == concatenation of '
        'the reads delivered to matching; logfile_send == concatenation of what each send-family call was asked to send (coerced '
        'argument, + linesep for sendline, control byte decoded in unicode mode); logfile == both merged in operation order; every '
        'write is followed by a flush before the next write; every logged object has the API string type. '
        'Non-trivial: >= 1 log write; distinct by trace digest')

ASSUME = ['interact() logging is judged by the C15 harness (clause C11.interact), asyncio logging by C14 (clause C11.async)']


def nontrivial(scn, info):
    c = info.get('counters', {})
    return c.get('sent_bytes', 0) > 0 or c.get('read_chunks', 0) > 0


def tag(scn, v):
    return '%s/%s' % (scn.get('transport'), v.detail.get('log'))


def spec(pid):
    return CheckSpec('C11', 'logging fidelity', lambda rng: sendlog.generate(rng, 'C11'), lambda s: sendlog.run(s, 'C11'),
                     level='exploration', runs={'quick': 40000, 'thorough': 800000}, budget_s={'quick': 45, 'thorough': 900},
                     rule=RULE, assumptions=ASSUME, components=COMPONENTS, nontrivial=nontrivial, tag=tag)
