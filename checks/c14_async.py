"""C14: asyncio parity -- async_=True gives the same answers as the blocking call."""
from simpex import async_fam
from simpex.runner import CheckSpec
from checks.c01_c03_engine import COMPONENTS, ASSUME

RULE = ('engine histories (C01-C03 generator) on pty/fd transports driven from a coroutine under a virtual-time asyncio loop: each '
        'expect / expect_exact / expect_list is awaited (async_=True) or blocking (mixed on one object in half of the runs), with '
        'asyncio.sleep / blocking gaps, output arriving before the first await, between awaits, several writes per loop iteration, '
        'EOF with the last data, and in a third of the runs a write placed within +-30 us of an awaited call\'s deadline (timer '
        'and I/O in the same loop iteration). Oracle 1: every call, awaited or not, equals the naive model on the read sequence '
        'the asyncio transport delivered (same clauses as C01-C04: conservation, genuine/leftmost match, no missed/late match, '
        'EOF/TIMEOUT outcomes) -- which is what "same answer as the blocking call" means once both are fed the same schedule; at '
        'a deadline tie either TIMEOUT (consuming nothing) or the match is accepted, never a TIMEOUT that consumed text. '
        'Oracle 2: an awaited call with finite timeout T ends by T + 0.5 virtual s. Scope ends at the first EOF. '
        'Added later: awaited calls abandoned from outside (asyncio.wait_for around the call; a cancellation tie is judged as the '
        'outcome the engine reached), attribute changes between calls, > 1024 descriptors with use_poll. Deliveries of the asyncio '
        'protocol are recorded through the public logfile_read attribute. '
        'An awaited call never reports TIMEOUT before its time is up (C14.early_timeout). '
        'Ninth round: awaitables made before earlier operations and awaited later (scenario field prepare); C14.zero: an awaited call with timeout 0 must look at what the kernel holds readable when it begins, as the blocking call does; negative timeouts. Tenth round: a second event loop on the same object (known finding D38), bytes that are not text in a strict encoding during an awaited call (C14.decode_error: the blocking call raises UnicodeDecodeError, so must the awaited one), epoch variation. Non-trivial: >= 1 awaited call that consumed a read; distinct by trace digest')

COMP = dict(COMPONENTS)
COMP['real'] = COMPONENTS['real'] + ['pexpect._async_w_await (expect_async, PatternWaiter)',
                                     'asyncio.SelectorEventLoop, asyncio.wait_for/timeouts, asyncio.unix_events._UnixReadPipeTransport']
COMP['stub'] = COMPONENTS['stub'] + ['selector (SimSelector) and loop.time()', '_async_pre_await.py is not importable on Python 3.12 and not simulated']


def nontrivial(scn, info):
    return info.get('counters', {}).get('async_calls', 0) > 0 and info.get('nchunks', 0) > 0


def tag(scn, v):
    c = v.detail.get('call') or {}
    if scn.get('second_loop_at') is not None and v.clause == 'C14.C04_other_exception' and 'Event loop is closed' in (v.msg or ''):
        # the known limitation of the asyncio path: the transport made under the first event loop is cached on the object
        return 'second_event_loop'
    return '%s/%s' % ('await' if any(op.get('async') for op in scn.get('ops', [])) else 'sync', c.get('api'))


def spec(pid):
    return CheckSpec('C14', 'asyncio parity', async_fam.generate, async_fam.run, level='exploration',
                     runs={'quick': 30000, 'thorough': 600000}, budget_s={'quick': 45, 'thorough': 900},
                     rule=RULE, assumptions=ASSUME, components=COMP, nontrivial=nontrivial, tag=tag)
