"""C17: pxssh login -- secrets only when asked, success only at a prompt, else raises."""
from simpex import pxssh_fam
from simpex.runner import CheckSpec
from checks.c01_c03_engine import COMPONENTS

RULE = ('pxssh.login() (real code, spawned through the simulated pty seam) against a scripted ssh dialogue of 1..8 steps over {host-key '
        'question, password prompt, passphrase prompt, permission denied, terminal-type question, banner text containing # / $, '
        'silence of 0.2..40 s, terminal closed, "Connection closed by remote host", exit, shell} followed by a shell of flavour '
        'sh / csh / zsh (each accepting only its own prompt-setting syntax) with response latency 1 us..40 ms; options '
        'auto_prompt_reset, sync_original_prompt, quiet, ssh_key=True, port, login_timeout 1/10, sync_multiplier, instance timeout '
        '2/30; bytes/unicode; torn reads. Oracle on the server transcript: the password is written at most once and only when '
        'the server output since the client\'s previous input contains a password/passphrase prompt; yes only after the host-key '
        'question; login()==True => the server is in its shell state and, with prompt reset, the unique prompt is in force, after '
        'which prompt() returns exactly the echoed command plus its output for a few generated commands; every other dialogue ends '
        'in a pexpect.ExceptionPexpect subclass within the sum of the configured timeouts; never another exception type, never a '
        'hang. Virtual time makes the 10 s / 30 s timeouts free. Added later: ssh_key given as a file path, sessions whose local '
        'terminal does not echo, type-ahead (two commands outstanding) with the first unique prompt aimed at a 2000-character read '
        'boundary of the queued output, a command that hangs. Ninth round: the time at which the client typed each prompt-setting attempt is recorded (the known finding D23 needs a server silent for more than the fixed 10 s). Tenth round: after a failed login the application tries again on the same object (refused by the unchanged tree: not judged; a tree that accepts it is held to the transcript rules for the new dialogue). Non-trivial: script of >= 2 steps; distinct by trace digest')

ASSUME = ['the ssh client and remote shell are a scripted stub (transcript-recording); real ssh is not exercised',
          'the stub disables terminal echo while it reads a password, as ssh does']

COMP = dict(COMPONENTS)
COMP['real'] = COMPONENTS['real'] + ['pexpect.pxssh.pxssh (login, sync_original_prompt, try_read_prompt, set_unique_prompt, prompt)']


def nontrivial(scn, info):
    return info.get('counters', {}).get('script_len', 0) >= 2


def tag(scn, v):
    o = scn.get('opts', {})
    if v.clause in ('C17.silent_success', 'C17.prompt') and o.get('auto_prompt_reset', True):
        # blind fall-back prompt commands (csh, zsh syntax) reached a shell that had accepted an earlier one?
        t = 'reset=True/%s' % ('fallback_commands_queued' if v.detail.get('prompt_setting_commands_received', 0) >= 2 else 'direct')
        gap = v.detail.get('fallback_typed_after_s')
        if gap is not None and gap < 9.9:
            # the known finding is about a server silent for MORE than the fixed 10 s each attempt waits; a fall-back typed
            # earlier than that is something else
            t += '/typed_after_less_than_10s'
        if v.detail.get('set_unique_prompt_returned') is False:
            # login() went on although its own set_unique_prompt() reported failure: not the queued-fall-back finding
            t += '/set_unique_prompt_failed'
        return t
    if v.clause == 'C17.silent_success':
        # without prompt reset nothing verifies the login: which weaker safeguard, if any, was in force?
        t = 'reset=False/sync=%s/echo=%s' % (bool(o.get('sync_original_prompt', True)), bool(v.detail.get('session_echo', True)))
        if t.endswith('sync=True/echo=False') and v.detail.get('server_state') in ('password', 'passphrase', 'hostkey', 'termtype'):
            # the server answers every newline login() types with the same question again: two identical answers pass
            # the similarity test of sync_original_prompt()
            t += '/server_reprompts'
        return t
    if v.clause == 'C17.exception_type' and v.site:
        return '%s.%s' % (v.site[0].replace('.py', ''), v.site[1])
    return 'reset=%s/sync=%s' % (o.get('auto_prompt_reset'), o.get('sync_original_prompt'))


def spec(pid):
    return CheckSpec('C17', 'pxssh login', pxssh_fam.generate, pxssh_fam.run, level='exploration',
                     runs={'quick': 60000, 'thorough': 600000}, budget_s={'quick': 60, 'thorough': 900},
                     rule=RULE, assumptions=ASSUME, components=COMP, nontrivial=nontrivial, tag=tag)
