"""Property id -> CheckSpec (modules are imported lazily)."""
import importlib

MODULES = {
    'C01': 'checks.c01_c03_engine', 'C02': 'checks.c01_c03_engine', 'C03': 'checks.c01_c03_engine',
    'C04': 'checks.c04_eof_timeout', 'C05': 'checks.c05_deadlines', 'C06': 'checks.c06_transport', 'C07': 'checks.c07_unicode', 'C08': 'checks.c08_send', 'C09': 'checks.c09_c10_lifecycle', 'C10': 'checks.c09_c10_lifecycle', 'C11': 'checks.c11_logging', 'C12': 'checks.c12_run', 'C14': 'checks.c14_async', 'C15': 'checks.c15_interact', 'C16': 'checks.c16_replwrap', 'C17': 'checks.c17_pxssh', 'C18': 'checks.c18_ansi',
}


def ids():
    return sorted(MODULES)


def get(pid):
    mod = importlib.import_module(MODULES[pid])
    return mod.spec(pid)
