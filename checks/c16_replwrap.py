"""C16: REPLWrapper -- each command returns exactly its own output."""
from simpex import repl_fam
from simpex.runner import CheckSpec
from checks.c01_c03_engine import COMPONENTS

RULE = ('REPLWrapper over the simulated pty child running a scripted line-oriented REPL (canonical-mode terminal, ONLCR output, PS1/PS2, '
        'begin..end blocks, SIGINT handler that cancels the block and reprints PS1) whose command outputs are known by construction; '
        'with and without prompt change, with echo initially on (setecho/waitnoecho path), extra_init_cmd; sequences of 1..7 commands: '
        'payloads of 0..200000 characters with/without final newline, embedded newlines, no output, multi-line blocks, trailing '
        'newline in the command, slow commands printing over virtual seconds, incomplete blocks in between; REPL output cut into '
        'pieces of 1..100000 bytes with seeded delays, torn reads, maxread 1..2000; blocking and awaited (virtual-time asyncio loop). '
        'Oracle: run_command returns exactly the command\'s output (no prompt text, nothing of its neighbours); incomplete input '
        'raises ValueError, the REPL receives exactly one SIGINT for it, and later commands still return exactly their output. '
        'Added later: verbatim text blocks (blank / indented / trailing-blank lines matter), incomplete commands whose first lines are '
        'complete and print, multi-line commands handed over with CR LF or bare CR between the lines. '
        'Non-trivial: >= 1 command completed; distinct by trace digest')

ASSUME = ['real bash/python/zsh and bashrc.sh are not exercised: the REPL is a stub with the same prompt protocol',
          'payloads never contain the prompt strings']

COMP = dict(COMPONENTS)
COMP['real'] = COMPONENTS['real'] + ['pexpect.replwrap.REPLWrapper', 'pexpect._async_w_await.repl_run_command_async']


def nontrivial(scn, info):
    return info.get('counters', {}).get('cmds', 0) > 0


def tag(scn, v):
    return '%s/%s' % ('async' if scn.get('async') else 'sync', v.site)


def spec(pid):
    return CheckSpec('C16', 'REPLWrapper', repl_fam.generate, repl_fam.run, level='exploration',
                     runs={'quick': 12000, 'thorough': 300000}, budget_s={'quick': 50, 'thorough': 900},
                     rule=RULE, assumptions=ASSUME, components=COMP, nontrivial=nontrivial, tag=tag)
