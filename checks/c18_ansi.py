"""C18: ANSI emulator -- total, shape-preserving, independent of chunking (under torn delivery)."""
from simpex import ansi_fam
from simpex.runner import CheckSpec
from checks.c01_c03_engine import COMPONENTS

RULE = ('generated terminal sessions of 1..60 tokens (printable runs incl. multi-byte characters, CR/LF/BS/TAB/BEL/NUL, every sequence '
        'the emulator knows -- cursor moves, home, erase, scroll region, SGR, DECSCA, private modes, save/restore, reverse index, '
        'charset selection -- with parameters in {0, 1, 2, mid, == size, size+1, 99999}, unknown and malformed sequences, a final '
        'sequence truncated as if the child died) on screens 1x1..4x5 and 24x80/5x10/3x40; the stream reaches an ANSI terminal '
        'installed as logfile_read through the simulated pty/fd transport cut by split writes, torn reads or maxread 1..7 (bytes '
        'mode: the terminal decodes; unicode mode: the spawn decodes), or is fed directly in pieces. Oracle after EVERY delivery: no '
        'exception, grid exactly rows x cols single characters, cursor on screen; after every completed token (twin fed token by '
        'token) the parser is back in its ground state with no parameters left; final screen, cursor, saved cursor, scroll region '
        'and parser state equal those of a twin fed the whole stream at once. Added later: arbitrary final / intermediate bytes inside '
        'control sequences (CAN, SUB, NUL, DEL, ESC), parameters written with non-ASCII decimal digits. '
        'Tenth round: plain text fed through write_ch() one byte or character at a time. Ninth round: parameters of 4299..9000 digits, lone surrogates in str input, feeding through process() one byte / character at a time, and ./log not writable (a directory of that name: the one file the terminal writes). Non-trivial: >= 1 cut; distinct by trace digest')

ASSUME = ['this is the degenerate corner of the technique (one consumer, no clock): only torn delivery and mid-sequence death are simulated',
          'unknown sequences make the emulator append to ./log; the check runs in a scratch directory']

COMP = dict(COMPONENTS)
COMP['real'] = COMPONENTS['real'] + ['pexpect.ANSI.ANSI', 'pexpect.FSM.FSM', 'pexpect.screen.screen']


def nontrivial(scn, info):
    return bool(scn.get('cuts')) or scn.get('how') == 'maxread'


def tag(scn, v):
    return '%s' % (scn.get('transport'),)


def spec(pid):
    return CheckSpec('C18', 'ANSI emulator under torn delivery', ansi_fam.generate, ansi_fam.run, level='exploration',
                     runs={'quick': 40000, 'thorough': 800000}, budget_s={'quick': 50, 'thorough': 900},
                     rule=RULE, assumptions=ASSUME, components=COMP, nontrivial=nontrivial, tag=tag)
