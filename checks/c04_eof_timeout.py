"""C04: EOF/TIMEOUT outcomes -- index if listed, else exactly that exception;
before holds all pending text; a pending match wins; EOF repeats, never blocks."""
from simpex import engine
from simpex.runner import CheckSpec
from checks.c01_c03_engine import COMPONENTS, ASSUME, nontrivial, tag

RULE = ('engine scenarios biased to streams that end (exit / close / hang-up) or fall silent at seeded points, pattern lists '
        'that mostly cannot match, EOF/TIMEOUT markers absent/first/middle/last/both, all entry points (expect, expect_exact, '
        'expect_list, read, readline, readlines, iteration), 4 transports, bytes/unicode, timeouts incl. 0, calls continuing '
        'after the first EOF, str(spawn) built in between. Oracle per primitive call: returns the marker index iff listed else '
        'raises exactly pexpect.EOF/TIMEOUT (type identity; any other exception is a violation); before == all pending text; '
        'after is the class; match/match_index as documented; an occurrence in the searchable pending text beats EOF/TIMEOUT '
        '(naive model); after EOF pending is empty and later calls are EOF again within 0.5 virtual s, never TIMEOUT, never a '
        'hang; on an EOF/TIMEOUT outcome, listed or raised, before is all the pending text (C04.bookkeeping); transport errors that are '
        'not end-of-stream (socket reset) pass through unchanged. Generator additions as for C01-C03 (attribute changes between calls, '
        'EINTR, > 1024 descriptors, ignorecase). Ninth round: the fault kind interrupt (an exception from outside -- Ctrl-C, a raising signal handler -- abandons the call where it really waits: select/poll/recv/sleep/waitpid; the application goes on using the object) ; long patterns (their text is quoted in the EOF/TIMEOUT diagnostics); negative timeouts; spawn.eof() after every operation (C04.eof_flag: true from the first EOF outcome on, never while the stream has not ended). Tenth round: fdspawn over a terminal device (non-canonical, VMIN 0; hang-up as empty reads or as EIO). Non-trivial: >=1 read consumed or fault fired; distinct by trace digest')


def spec(pid):
    def run(scn):
        return engine.run(scn, ['C04', 'C03.missed'])

    def gen(rng):
        return engine.generate(rng, 'eof')
    return CheckSpec('C04', 'EOF/TIMEOUT outcomes', gen, run, level='exploration',
                     runs={'quick': 60000, 'thorough': 1500000}, budget_s={'quick': 40, 'thorough': 900},
                     rule=RULE, assumptions=ASSUME, components=COMPONENTS, nontrivial=nontrivial, tag=tag)
