"""C12: run() -- complete output, each event answered once, true exit status."""
from simpex import run_fam
from simpex.runner import CheckSpec
from checks.c01_c03_engine import COMPONENTS

RULE = ('pexpect.run() with its spawn class bound to the simulated pty child, against a scripted dialogue (echo off, raw line reads) '
        'of 0..8 steps: payloads of 0..5000 characters, prompts Q1?/Q2?/Q3? after which the child waits for a line when the winning '
        'event sends one, silences of 0.1..5 s (longer than the timeout in part of the runs), seeded delays and torn reads; event '
        'tables as list or dict with string / function / bound-method responses returning None / a string / True, a shadowing '
        'prefix pattern listed before or after the full pattern (priority order), TIMEOUT and EOF as event keys; bytes/unicode; '
        'withexitstatus. Oracle: the returned text == the text delivered by the transport up to the stop point (everything for EOF '
        'or TIMEOUT stops; through the stopping match for a callback stop), each piece once; every line the child read at a prompt '
        'is the response of the first-listed pattern matching there and nothing else was sent; callbacks get the state dictionary '
        'with child and event_count == number of earlier events; exit status == kernel truth and the child is reaped. '
        'Added later: the same pattern listed twice with different responses (first wins), prompts written in two pieces with a pause '
        'shorter or longer than the timeout inside them (TIMEOUT ticks in between), spawn options passed through run(**kwargs) '
        '(searchwindowsize with marker events only, use_poll), extra_args (must reach every callback in the state dictionary), '
        'the runu() alias. Tenth round: the events object given to run() keeps its entries (C12.events_mutated). Non-trivial: >= 1 event fired or >= 1 read; distinct by trace digest')

ASSUME = ['a non-stopping callback on the EOF key makes run() spin by design (EOF repeats); generated EOF callbacks stop',
          'real fork/exec is replaced at the ptyprocess seam of pexpect.pty_spawn (and at spawn._spawnpty)']


def nontrivial(scn, info):
    return info.get('counters', {}).get('calls', 0) > 0


def tag(scn, v):
    return '%s/%s' % (v.detail.get('stop'), scn.get('as'))


def spec(pid):
    def run12(scn):
        vs, info = run_fam.run(scn)
        return [v for v in vs if v.clause.startswith('C12')], info
    return CheckSpec('C12', 'run()', run_fam.generate, run12, level='exploration',
                     runs={'quick': 30000, 'thorough': 600000}, budget_s={'quick': 45, 'thorough': 900},
                     rule=RULE, assumptions=ASSUME, components=COMPONENTS, nontrivial=nontrivial, tag=tag)
