"""C09 exit-status truth, C10 lifecycle safety: one family, separate clauses."""
from simpex import lifecycle
from simpex.runner import CheckSpec
from checks.c01_c03_engine import COMPONENTS

RULES = {
    'C09': '(a) complete over the status space: every exit code 0..255 and every terminating signal, each with seeded observation '
           'sequences of length 1..3 over {isalive, wait, close, terminate, expect(EOF), read-to-EOF}, the child dying before spawn '
           'returns / at an ordinal inside the sequence / after output, reapable at once or 0.5 ms after its descriptors close; '
           '(b) the C10 exploration runs. Oracle after EVERY operation once terminated is True: exactly one of exitstatus/'
           'signalstatus set and equal to the kernel\'s record of the death, status decodes to the same, values identical after '
           'every later operation, wait() returns the exit code, and wait()/isalive()==False/close() leave terminated True. '
           'Ninth round: operations abandoned from outside (interrupt fault: wait(), close(), terminate() and reads), and C09.unobserved for a read that hit EOF on a dead, reapable child (no exit gap). Non-trivial: the child died during the run; distinct by trace digest',
    'C10': '(a) complete: every operation sequence of length <= 2 (3 in the thorough tier) over {isalive, wait, kill(sig), '
           'terminate(False/True), close(False/True), sendeof, expect(EOF), send, read, with-exit-by-exception, del+gc} x child '
           'disposition {normal, ignores HUP/INT, stopped, already exited, ignores+stopped}, and every sequence of length <= 3 over '
           'the fd/socket alphabet with peer reset/close; (b) seeded sequences up to length 8 with children that exit at an ordinal '
           'inside the sequence, signal latency 0..20 ms, exit gap 0..20 ms. After every descriptor close the harness opens a decoy '
           'that receives the same number. Invariants after EVERY operation: isalive()/terminated agree with the kernel process '
           'table; terminate(force=True)==True and close() leave the child dead AND reaped; close() releases the descriptor and '
           'sets closed/child_fd; a second close makes no descriptor call; I/O after close raises; no intercepted call ever names '
           'the decoy; dropping the object reaps the child and closes the descriptor. '
           'Ninth round: operations abandoned from outside (interrupt fault; not inside finalisers); one awaited call under an event loop of its own that is closed afterwards (asyncio.run) with the object closed / dropped later outside any loop. Non-trivial: >= 1 lifecycle operation executed; distinct by trace digest',
}

RULES['C10'] += (' Added later: an awaited expect(EOF) (asyncio closing the object), fdspawn with use_poll, the rarely used descriptor '
                 'operations (setwinsize, getwinsize, setecho, getecho, waitnoecho, isatty, fileno, flush, readline, sendcontrol, sendintr) '
                 'anywhere in the sequence, a log file object that the application closes before it closes the spawn object, fdspawn on descriptor '
                 'number 0, and for del: child and descriptor are gone as soon as the last reference is dropped, without running the cyclic '
                 'collector by hand (C10.leak_until_gc). The event loop polling a descriptor counts as touching it.')
RULES['C09'] += ' Added later: awaited expect(EOF), PopenSpawn children (status mapping in wait()).'

ASSUME = ['wait() on a stopped child nobody continues is documented as unsupported and skipped',
          'signal delivery latency and descriptors-closed-to-reapable gap <= 20 ms (inside pexpect/ptyprocess 0.1 s grace sleeps)',
          'exceptions from outside (Ctrl-C, a raising signal handler) are injected only where the code under test really waits (select, poll, recv, sleep, a blocking waitpid): between two arbitrary bytecodes no code can promise anything and nothing is judged there',
          'subprocess.Popen is stubbed (FakePopen over the simulated process table): for PopenSpawn only pexpect\'s own status mapping in wait() runs']


def nontrivial(scn, info):
    return info.get('counters', {}).get('nops', 0) > 0


def tag(scn, v):
    return '%s/%s/%s' % (v.site, v.detail.get('opname'), scn.get('disp') or scn.get('transport'))


def spec(pid):
    return CheckSpec(pid, {'C09': 'exit status truth', 'C10': 'lifecycle safety'}[pid], lifecycle.generate,
                     lambda s: lifecycle.run(s, pid), level='fault_enumeration',
                     runs={'quick': 20000, 'thorough': 500000}, budget_s={'quick': 50, 'thorough': 900},
                     rule=RULES[pid], assumptions=ASSUME, components=COMPONENTS, nontrivial=nontrivial, tag=tag,
                     enumerate_fn=lifecycle.enumerate_scenarios)
